"""Fail-closed translator for property C13 (out-of-equilibrium moments).

From the CURRENT sources it regenerates one Coq module (text) containing

  grid.py        Grid.decompactify / compactificationDerivatives (pyrx, real formulas),
                 the cached-coordinate state machine (_cacheCoordinates,
                 changeMomentumFalloffScale, changePositionFalloffScale, the tail of
                 __init__) with arrays modelled as functions of the compact node, the
                 Gauss-Lobatto node formulas of __init__, and the frame fact "only these
                 methods write the cached attributes";
  polynomial.py  the nodal quadrature weight of Polynomial.integrate per direction
                 (the AugAssign/If block interpreted symbolically) and its basis rule
                 (integrated axes -> Cardinal, the others untouched);
  boltzmann.py   the integrand weights of BoltzmannSolver.getDeltas as scalar formulas,
                 which grid array feeds which argument on which axis (def-use), the
                 Polynomial operations applied to deltaF in order (construct /
                 changeBasis / integrate), the keyword mapping into BoltzmannDeltas, and
                 the assembled double sums  gd_moment_<field>;
  equationOfMotion.py / helpers.py
                 the per-particle summands of EOM.deltaToTmunu and gammaSq.

Anything outside the recognised shapes raises pyrx.TranslateError.
"""
import ast
import textwrap

import pyrx
from pyrx import TranslateError, Pattern

SCALARS = ["momentumFalloffT", "positionFalloff"]
COMPACT = ["chiValues", "rzValues", "rpValues"]
ARRAYS = ["xiValues", "pzValues", "ppValues", "dxidchi", "dpzdrz", "dppdrp"]
MAPS = ["decompactify", "compactificationDerivatives"]
STATE_METHODS = ["_cacheCoordinates", "changeMomentumFalloffScale",
                 "changePositionFalloffScale"]
DIR_NODE = {"z": "chi", "pz": "rz", "pp": "rp"}


def _class(tree, name):
    for n in tree.body:
        if isinstance(n, ast.ClassDef) and n.name == name:
            return n
    raise TranslateError("class %s not found" % name)


def _method(cls, name):
    for f in cls.body:
        if isinstance(f, ast.FunctionDef) and f.name == name:
            return f
    raise TranslateError("method %s.%s not found" % (cls.name, name))


def _is_self_attr(node, names=None):
    return isinstance(node, ast.Attribute) and isinstance(node.value, ast.Name) and \
        node.value.id == "self" and (names is None or node.attr in names)


def _is_doc(st):
    return isinstance(st, ast.Expr) and isinstance(st.value, ast.Constant) and \
        isinstance(st.value.value, str)


class _SelfToName(ast.NodeTransformer):
    """self.N, self.M, self.grid.N, self.grid.M -> N, M"""

    def visit_Attribute(self, node):
        self.generic_visit(node)
        if node.attr in ("N", "M"):
            v = node.value
            if (isinstance(v, ast.Name) and v.id == "self") or _is_self_attr(v, ["grid"]):
                return ast.copy_location(ast.Name(id=node.attr, ctx=ast.Load()), node)
        return node


def _no_inplace_writes(fn, owner):
    """no slice / element / out= / augmented write into a cached grid array (plain
    re-binding `self.x = ...` is what the state-machine translation sees)"""
    cached = SCALARS + ARRAYS + COMPACT
    for n in ast.walk(fn):
        if isinstance(n, ast.Subscript) and isinstance(n.ctx, (ast.Store, ast.Del)) and \
                _is_self_attr(n.value, cached):
            raise TranslateError("%s.%s writes into %s in place (line %d)" % (
                owner, fn.name, n.value.attr, n.lineno))
        if isinstance(n, ast.AugAssign):
            t = n.target.value if isinstance(n.target, ast.Subscript) else n.target
            if _is_self_attr(t, cached):
                raise TranslateError("%s.%s updates %s in place (line %d)" % (
                    owner, fn.name, t.attr, n.lineno))
        if isinstance(n, ast.Call):
            for kw in n.keywords:
                if kw.arg in ("out", "where") and any(
                        _is_self_attr(m, cached) for m in ast.walk(kw.value)):
                    raise TranslateError("%s.%s: %s= names a cached array (line %d)" % (
                        owner, fn.name, kw.arg, n.lineno))
            if isinstance(n.func, ast.Attribute) and _is_self_attr(n.func.value, cached) and \
                    n.func.attr in ("fill", "sort", "put", "itemset", "resize", "partition",
                                    "setfield", "__setitem__", "__iadd__", "__imul__"):
                raise TranslateError("%s.%s mutates %s (line %d)" % (
                    owner, fn.name, n.func.value.attr, n.lineno))
            if ast.unparse(n.func) in ("np.copyto", "np.put", "np.place", "np.putmask") and \
                    n.args and _is_self_attr(n.args[0], cached):
                raise TranslateError("%s.%s: %s into a cached array (line %d)" % (
                    owner, fn.name, ast.unparse(n.func), n.lineno))


def _natexpr(node):
    if isinstance(node, ast.Constant) and isinstance(node.value, int) and \
            not isinstance(node.value, bool) and node.value >= 0:
        return "%d" % node.value
    if isinstance(node, ast.Name) and node.id in ("N", "M"):
        return node.id
    if isinstance(node, ast.BinOp) and isinstance(node.op, (ast.Add, ast.Sub)):
        return "(%s %s %s)" % (_natexpr(node.left),
                               "+" if isinstance(node.op, ast.Add) else "-",
                               _natexpr(node.right))
    raise TranslateError("index expression %s" % ast.unparse(node))


# ------------------------------------------------------------------------------------
# grid.py

def gen_grid(src):
    tree = ast.parse(src)
    cls = _class(tree, "Grid")
    tr = pyrx.ClassTranslator(src, "Grid", SCALARS, [], [], state=False, prefix="g_")
    out = ["(* ---- generated from src/WallGo/grid.py ---- *)", tr.header()]
    for m in MAPS:
        fn = _method(cls, m)
        if [a.arg for a in fn.args.args] != ["self", "zCompact", "pzCompact", "ppCompact"]:
            raise TranslateError("%s: unexpected parameters" % m)
        out.append(tr.method(m))
    envof = "(mk_g_env %s)" % " ".join("(s_%s s)" % a for a in SCALARS)

    # state record
    fields = ["s_%s : R" % a for a in SCALARS] + ["s_%s : R -> R" % a for a in ARRAYS]
    allf = SCALARS + ARRAYS
    out.append("Record gst := mk_gst { %s }." % ";\n  ".join(fields))
    for a in allf:
        ty = "R" if a in SCALARS else "R -> R"
        out.append("Definition set_s_%s (v : %s) (s : gst) : gst :=\n  {| %s |}." % (
            a, ty, "; ".join("s_%s := %s" % (b, "v" if b == a else "s_%s s" % b)
                             for b in allf)))

    def state_body(fn, params, init=False):
        """sequence of updates of `s`; returns list of 'let s := ... in' lines"""
        env = pyrx.Env()
        for p in params:
            env.v[p] = p
        lines = []
        seen_cache = False
        k = 0
        for st in fn.body:
            if _is_doc(st):
                continue
            if isinstance(st, ast.Assign) and len(st.targets) == 1 and \
                    _is_self_attr(st.targets[0], SCALARS):
                if init and seen_cache:
                    raise TranslateError("__init__ stores a scale after caching (line %d)"
                                         % st.lineno)
                lines.append("let s := set_s_%s %s s in" % (st.targets[0].attr,
                                                            tr.expr(st.value, env)))
                continue
            if isinstance(st, ast.Assign) and len(st.targets) == 1 and \
                    isinstance(st.targets[0], ast.Tuple) and \
                    isinstance(st.value, ast.Call) and _is_self_attr(st.value.func, MAPS):
                args = st.value.args
                if st.value.keywords or len(args) != 3 or not all(
                        _is_self_attr(a, [COMPACT[i]]) for i, a in enumerate(args)):
                    raise TranslateError("%s: map not applied to the node arrays (line %d)"
                                         % (fn.name, st.lineno))
                tg = st.targets[0].elts
                if len(tg) != 3:
                    raise TranslateError("unpack arity (line %d)" % st.lineno)
                k += 1
                lines.append("let m_%d := (fun r : R => g_%s %s r r r) in" % (
                    k, st.value.func.attr, envof))
                for i, t in enumerate(tg):
                    if isinstance(t, ast.Name):
                        continue            # discarded component
                    if not _is_self_attr(t, ARRAYS):
                        raise TranslateError("store target %s (line %d)" % (
                            ast.unparse(t), st.lineno))
                    lines.append("let s := set_s_%s (fun r : R => %s) s in" % (
                        t.attr, pyrx.proj("(m_%d r)" % k, i, 3)))
                continue
            if isinstance(st, ast.Expr) and isinstance(st.value, ast.Call) and \
                    _is_self_attr(st.value.func, STATE_METHODS) and \
                    not st.value.args and not st.value.keywords:
                lines.append("let s := %s s in" % st.value.func.attr.lstrip("_"))
                seen_cache = True
                continue
            if init:
                for n in ast.walk(st):
                    if isinstance(n, ast.Attribute) and isinstance(n.ctx, ast.Store) and \
                            _is_self_attr(n, SCALARS + ARRAYS):
                        raise TranslateError("__init__: unrecognised store to %s (line %d)"
                                             % (n.attr, n.lineno))
                continue
            raise TranslateError("%s: statement outside the subset (line %d): %s" % (
                fn.name, st.lineno, ast.unparse(st)[:60]))
        if init and not seen_cache:
            raise TranslateError("__init__ does not cache the coordinates")
        return lines

    for m in STATE_METHODS:
        fn = _method(cls, m)
        ps = [a.arg for a in fn.args.args if a.arg != "self"]
        lines = state_body(fn, ps)
        out.append("Definition %s %s(s : gst) : gst :=\n  %s\n  s." % (
            m.lstrip("_"), "".join("(%s : R) " % p for p in ps), "\n  ".join(lines)))
        tr.spans[m.lstrip("_")] = (fn.lineno, fn.end_lineno, pyrx._sha(ast.unparse(fn)))
    init = _method(cls, "__init__")
    lines = state_body(init, ["positionFalloff", "momentumFalloffT"], init=True)
    out.append("Definition grid_init (positionFalloff momentumFalloffT : R) (s : gst) : gst"
               " :=\n  %s\n  s." % "\n  ".join(lines))

    # frame: which methods write the cached attributes
    writers = {}
    for f in cls.body:
        if not isinstance(f, ast.FunctionDef):
            continue
        _no_inplace_writes(f, "Grid")
        for n in ast.walk(f):
            if isinstance(n, ast.Attribute) and isinstance(n.ctx, ast.Store) and \
                    _is_self_attr(n, SCALARS + ARRAYS + COMPACT):
                writers.setdefault(f.name, set()).add(n.attr)
    # the node arrays are bound once, before the first caching
    seen_c = False
    for st in init.body:
        if ast.unparse(st) == "self._cacheCoordinates()":
            seen_c = True
        elif seen_c:
            for n in ast.walk(st):
                if isinstance(n, ast.Attribute) and isinstance(n.ctx, ast.Store) and \
                        _is_self_attr(n, SCALARS + ARRAYS + COMPACT):
                    raise TranslateError("__init__ writes %s after caching (line %d)" % (
                        n.attr, n.lineno))
    allowed = set(STATE_METHODS) | {"__init__"}
    extra = set(writers) - allowed
    if extra:
        raise TranslateError("methods outside the model write cached grid attributes: %s"
                             % sorted(extra))
    for m, ws in writers.items():
        if m != "__init__" and ws & set(COMPACT):
            raise TranslateError("%s rewrites the compact node arrays" % m)

    # node formulas (Spectral spacing)
    nodes = {}
    for st in init.body:
        if isinstance(st, ast.If) and "Spectral" in ast.unparse(st.test) and \
                "spacing" in ast.unparse(st.test):
            for a in st.body:
                if isinstance(a, ast.Assign) and _is_self_attr(a.targets[0], COMPACT):
                    nodes[a.targets[0].attr] = a.value
    for arr in COMPACT:
        if arr not in nodes:
            raise TranslateError("node formula of %s not found" % arr)
        val = _SelfToName().visit(ast.parse(ast.unparse(nodes[arr]), mode="eval").body)
        ar = [n for n in ast.walk(val) if isinstance(n, ast.Call) and
              isinstance(n.func, ast.Attribute) and n.func.attr == "arange"]
        if len(ar) != 1 or len(ar[0].args) != 2 or ar[0].keywords:
            raise TranslateError("node formula of %s: expected one np.arange(a, b)" % arr)
        lo, hi = _natexpr(ar[0].args[0]), _natexpr(ar[0].args[1])

        class Sub(ast.NodeTransformer):
            def visit_Call(self, node):
                if node is ar[0]:
                    return ast.Name(id="idx__", ctx=ast.Load())
                self.generic_visit(node)
                return node
        val = Sub().visit(val)
        env = pyrx.Env()
        env.v.update({"idx__": "(INR i)", "N": "N", "M": "M"})
        body = tr.expr(val, env)
        nm = arr.replace("Values", "")
        size = "N" if pyrx._mentions_word(body, "N") else "M"
        if pyrx._mentions_word(body, "N") and pyrx._mentions_word(body, "M"):
            raise TranslateError("node formula of %s mixes M and N" % arr)
        out.append("Definition %sNode (%s : R) (i : nat) : R := %s." % (nm, size, body))
        out.append("Definition %s_lo : nat := %s." % (nm, lo))
        out.append("Definition %s_hi (%s : nat) : nat := %s." % (nm, size, hi))

    # getters used by getDeltas / integrate
    gcd = _method(cls, "getCompactificationDerivatives")
    gbody = [st for st in gcd.body if not _is_doc(st)]
    if len(gbody) != 2 or not isinstance(gbody[0], ast.If) or \
            ast.unparse(gbody[0].test) != "endpoints" or gbody[0].orelse or \
            gcd.decorator_list or [a.arg for a in gcd.args.args] != ["self", "endpoints"] or \
            [ast.unparse(d) for d in gcd.args.defaults] != ["False"]:
        raise TranslateError("getCompactificationDerivatives: body outside the subset")
    ret = gcd.body[-1]
    if not (isinstance(ret, ast.Return) and isinstance(ret.value, ast.Tuple) and
            all(_is_self_attr(e, ARRAYS) for e in ret.value.elts)):
        raise TranslateError("getCompactificationDerivatives: unexpected final return")
    getters = {"getCompactificationDerivatives": [e.attr for e in ret.value.elts]}
    gccf = _method(cls, "getCompactCoordinates")
    gcc_want = [
        "if endpoints:\n    chi = np.array([-1] + list(self.chiValues) + [1])\n"
        "    rz = np.array([-1] + list(self.rzValues) + [1])\n"
        "    rp = np.array(list(self.rpValues) + [1])\nelse:\n"
        "    chi, rz, rp = (self.chiValues, self.rzValues, self.rpValues)",
        "if direction == 'z':\n    return chi", "if direction == 'pz':\n    return rz",
        "if direction == 'pp':\n    return rp", "return (chi, rz, rp)"]
    if [ast.unparse(st) for st in gccf.body if not _is_doc(st)] != gcc_want or \
            gccf.decorator_list:
        raise TranslateError("getCompactCoordinates: body outside the subset")
    gcc = ast.unparse(gccf)
    want = "chi, rz, rp = (self.chiValues, self.rzValues, self.rpValues)"
    if want not in gcc:
        raise TranslateError("getCompactCoordinates: node arrays are not returned as is")
    for d, v in DIR_NODE.items():
        if "if direction == '%s':\n        return %s" % (d, v) not in gcc:
            raise TranslateError("getCompactCoordinates: direction %s" % d)
    return "\n".join(out), tr, getters


# ------------------------------------------------------------------------------------
# subclasses of Grid (grid3Scales.py): what production builds

SUB_MAY_OVERRIDE = {"__init__", "changePositionFalloffScale", "decompactify",
                    "compactificationDerivatives", "compactify"}


def find_grid_subclasses(all_sources):
    """{class name: (file, source)} for every class in the package whose base is Grid"""
    found = {}
    for fname, src in all_sources.items():
        try:
            tree = ast.parse(src)
        except SyntaxError:
            continue
        for n in tree.body:
            if isinstance(n, ast.ClassDef) and any(
                    (isinstance(b, ast.Name) and b.id == "Grid") or
                    (isinstance(b, ast.Attribute) and b.attr == "Grid") for b in n.bases):
                found[n.name] = (fname, src)
    return found


def gen_grid_subclass(src, name, grid_src, px):
    """Facts about a subclass of Grid (fail closed): it inherits the cache state machine and
    the getters, never writes the cached attributes itself, its constructor hands the
    momentum scale to Grid.__init__, its position rescaling ends by re-caching, and its own
    momentum maps / Jacobians are translated (px_pz, px_pp, px_dpz, px_dpp)."""
    cls = _class(ast.parse(src), name)
    base = _class(ast.parse(grid_src), "Grid")
    base_methods = {f.name for f in base.body if isinstance(f, ast.FunctionDef)}
    if cls.decorator_list or cls.keywords:
        raise TranslateError("%s: decorators / metaclass" % name)
    for item in cls.body:
        if isinstance(item, ast.FunctionDef):
            if item.decorator_list:
                raise TranslateError("%s.%s: decorated" % (name, item.name))
            if item.name in base_methods and item.name not in SUB_MAY_OVERRIDE:
                raise TranslateError("%s overrides Grid.%s (outside the model)" % (
                    name, item.name))
            _no_inplace_writes(item, name)
            for n in ast.walk(item):
                if isinstance(n, ast.Attribute) and isinstance(n.ctx, (ast.Store, ast.Del)) \
                        and _is_self_attr(n, ["momentumFalloffT"] + ARRAYS + COMPACT):
                    raise TranslateError("%s.%s writes the cached attribute %s" % (
                        name, item.name, n.attr))
                if isinstance(n, ast.Call) and isinstance(n.func, ast.Name) and \
                        n.func.id in ("setattr", "delattr", "vars"):
                    raise TranslateError("%s.%s uses %s" % (name, item.name, n.func.id))
                if isinstance(n, ast.Attribute) and n.attr == "__dict__":
                    raise TranslateError("%s.%s touches __dict__" % (name, item.name))
        elif not _is_doc(item):
            raise TranslateError("%s: class-level statement (line %d)" % (name, item.lineno))
    # constructor: super().__init__(M, N, <L>, momentumFalloffT, spacing) as LAST statement
    init = _method(cls, "__init__")
    last = init.body[-1]
    ok = isinstance(last, ast.Expr) and isinstance(last.value, ast.Call) and \
        ast.unparse(last.value.func) == "super().__init__" and not last.value.keywords and \
        len(last.value.args) == 5 and ast.unparse(last.value.args[3]) == "momentumFalloffT" \
        and "momentumFalloffT" in [a.arg for a in init.args.args]
    if not ok:
        raise TranslateError("%s.__init__ does not end with super().__init__(M, N, L, "
                             "momentumFalloffT, spacing)" % name)
    for st in init.body[:-1]:
        for n in ast.walk(st):
            if isinstance(n, ast.Name) and n.id == "momentumFalloffT" and \
                    isinstance(n.ctx, ast.Store):
                raise TranslateError("%s.__init__ re-binds momentumFalloffT" % name)
    out = ["(* ---- generated from the Grid subclass %s ---- *)" % name]
    # position rescaling: any number of self._updateParameters(...) then self._cacheCoordinates()
    if any(f.name == "changePositionFalloffScale" for f in cls.body
           if isinstance(f, ast.FunctionDef)):
        fn = _method(cls, "changePositionFalloffScale")
        body = [st for st in fn.body if not _is_doc(st)]
        for st in body[:-1]:
            if not (isinstance(st, ast.Expr) and isinstance(st.value, ast.Call) and
                    _is_self_attr(st.value.func, ["_updateParameters"])):
                raise TranslateError("%s.changePositionFalloffScale: statement (line %d)" % (
                    name, st.lineno))
        if not body or ast.unparse(body[-1]) != "self._cacheCoordinates()":
            raise TranslateError("%s.changePositionFalloffScale does not end by re-caching"
                                 % name)
        out.append("Definition %s_changePositionFalloffScale (s : gst) : gst :=\n"
                   "  let s := cacheCoordinates s in\n  s." % px)
    else:
        out.append("Definition %s_changePositionFalloffScale (s : gst) : gst :=\n"
                   "  changePositionFalloffScale (s_positionFalloff s) s." % px)
    # momentum lines of the two maps
    tr = pyrx.ClassTranslator(src, name, ["momentumFalloffT"], [], [], state=False,
                              prefix=px + "_")
    out.append(tr.header())
    own = {f.name for f in cls.body if isinstance(f, ast.FunctionDef)}
    for meth, names, coq in (("decompactify", ("pz", "pp"), ("pz", "pp")),
                             ("compactificationDerivatives",
                              ("dpzdpzCompact", "dppdppCompact"), ("dpz", "dpp"))):
        if meth not in own:
            raise TranslateError("%s does not define %s (then it need not be modelled; "
                                 "unexpected for a subclass in the package)" % (name, meth))
        fn = _method(cls, meth)
        if [a.arg for a in fn.args.args] != ["self", "zCompact", "pzCompact", "ppCompact"]:
            raise TranslateError("%s.%s: parameters" % (name, meth))
        ret = fn.body[-1]
        if not (isinstance(ret, ast.Return) and isinstance(ret.value, ast.Tuple) and
                len(ret.value.elts) == 3 and
                [ast.unparse(e) for e in ret.value.elts[1:]] == list(names)):
            raise TranslateError("%s.%s: return value" % (name, meth))
        if sum(isinstance(n, ast.Return) for n in ast.walk(fn)
               if not isinstance(n, ast.FunctionDef) or n is fn) < 1:
            raise TranslateError("%s.%s: return" % (name, meth))
        top_returns = [st for st in fn.body if isinstance(st, ast.Return)]
        nested_ctrl = [st for st in fn.body if isinstance(st, (ast.If, ast.For, ast.While,
                                                              ast.Try, ast.With))]
        if len(top_returns) != 1 or nested_ctrl:
            raise TranslateError("%s.%s: control flow" % (name, meth))
        for k, (loc, cq) in enumerate(zip(names, coq)):
            stores = [n for n in ast.walk(fn) if isinstance(n, ast.Name) and n.id == loc
                      and isinstance(n.ctx, ast.Store)]
            asg = [st for st in fn.body if isinstance(st, ast.Assign) and
                   len(st.targets) == 1 and isinstance(st.targets[0], ast.Name) and
                   st.targets[0].id == loc]
            if len(stores) != 1 or len(asg) != 1:
                raise TranslateError("%s.%s: %s is not assigned exactly once" % (
                    name, meth, loc))
            arg = ("pzCompact", "ppCompact")[k]
            for n in ast.walk(asg[0].value):
                if isinstance(n, ast.Name) and n.id not in ("self", "np", arg):
                    raise TranslateError("%s.%s: %s depends on %s" % (name, meth, loc, n.id))
            for par in ("pzCompact", "ppCompact"):
                if any(isinstance(n, ast.Name) and n.id == par and
                       isinstance(n.ctx, ast.Store) for n in ast.walk(fn)):
                    raise TranslateError("%s.%s re-binds %s" % (name, meth, par))
            env = pyrx.Env()
            env.v[arg] = "r"
            out.append("Definition %s_%s (e : %s_env) (r : R) : R :=\n  %s." % (
                px, cq, px, tr.expr(asg[0].value, env)))
        tr.spans["%s.%s" % (name, meth)] = (fn.lineno, fn.end_lineno,
                                            pyrx._sha(ast.unparse(fn)))
    return "\n".join(out), tr


# ------------------------------------------------------------------------------------
# polynomial.py : Polynomial.integrate

def gen_integrate(src):
    tree = ast.parse(src)
    cls = _class(tree, "Polynomial")
    fn = _method(cls, "integrate")
    tr = pyrx.ClassTranslator(src, "Polynomial", [], [], [])
    loops = [st for st in fn.body if isinstance(st, ast.For)]
    if len(loops) != 2:
        raise TranslateError("integrate: expected two loops over the axes")
    for lp in loops:
        if ast.unparse(lp.iter) != "range(self.rank)" or ast.unparse(lp.target) != "i":
            raise TranslateError("integrate: loop header")
    out = ["(* ---- generated from src/WallGo/polynomial.py (Polynomial.integrate) ---- *)"]
    # (1) basis rule
    l1 = loops[0]
    if not (len(l1.body) == 1 and isinstance(l1.body[0], ast.If) and
            ast.unparse(l1.body[0].test) == "i in axis"):
        raise TranslateError("integrate: basis loop")

    def appended(stmts):
        vals = [st.value.args[0] for st in stmts if isinstance(st, ast.Expr) and
                isinstance(st.value, ast.Call) and
                ast.unparse(st.value.func) == "basis.append"]
        others = [st for st in stmts if not isinstance(st, ast.Assert) and not (
            isinstance(st, ast.Expr) and isinstance(st.value, ast.Call) and
            ast.unparse(st.value.func) == "basis.append")]
        if len(vals) != 1 or others:
            raise TranslateError("integrate: basis loop body")
        v = vals[0]
        if isinstance(v, ast.Constant) and v.value in ("Cardinal", "Chebyshev", "Array"):
            return "B" + v.value
        if ast.unparse(v) == "self.basis[i]":
            return "b"
        raise TranslateError("integrate: appended basis %s" % ast.unparse(v))
    out.append("Definition integrate_new_basis (inAxis : bool) (b : basis) : basis :=\n"
               "  if inAxis then %s else %s." % (appended(l1.body[0].body),
                                                 appended(l1.body[0].orelse)))
    # order: changeBasis(tuple(basis)) before integrand = weight * self.coefficients
    idx = {id(st): k for k, st in enumerate(fn.body)}
    cb = [st for st in fn.body if isinstance(st, ast.Expr) and
          ast.unparse(st.value) == "self.changeBasis(tuple(basis))"]
    ig = [st for st in fn.body if isinstance(st, ast.Assign) and
          ast.unparse(st.targets[0]) == "integrand"]
    if len(cb) != 1 or len(ig) != 1 or not idx[id(loops[0])] < idx[id(cb[0])] < \
            idx[id(ig[0])] < idx[id(loops[1])]:
        raise TranslateError("integrate: order of changeBasis / integrand")
    v = ig[0].value
    if not (isinstance(v, ast.BinOp) and isinstance(v.op, ast.Mult) and
            {ast.unparse(v.left), ast.unparse(v.right)} == {"weight", "self.coefficients"}):
        raise TranslateError("integrate: integrand is not weight * self.coefficients")
    res = [st for st in fn.body if isinstance(st, ast.Assign) and
           ast.unparse(st.targets[0]) == "result"]
    if len(res) != 1 or ast.unparse(res[0].value) != "np.sum(integrand, axis)":
        raise TranslateError("integrate: result is not np.sum(integrand, axis)")
    # every top-level statement is pinned (input normalisation, the two loops, the pinned
    # assignments, the two returns); anything else stops the translator
    pinned = {
        "if weight is None:\n    weight = 1",
        "if axis is None:\n    axis = tuple(np.arange(self.rank))",
        "if isinstance(axis, int):\n    axis = (axis,)\n    self._checkAxis(axis)",
        "basis = []",
        "self.changeBasis(tuple(basis))",
        ast.unparse(ig[0]),
        "newBasis, newDirection, newEndpoints = ([], [], [])",
        "(newBasis, newDirection, newEndpoints) = ([], [], [])",
        "result = np.sum(integrand, axis)",
        "if np.asanyarray(result).ndim == 0:\n    return float(result)",
        "return Polynomial(result, self.grid, tuple(newBasis), tuple(newDirection), "
        "tuple(newEndpoints))",
    }
    seen_txt = []
    for st in fn.body:
        if _is_doc(st) or st in loops:
            continue
        txt = ast.unparse(st)
        if txt not in pinned:
            raise TranslateError("integrate: statement outside the subset (line %d): %s" % (
                st.lineno, txt[:70]))
        seen_txt.append(txt)
    if len(seen_txt) != len(set(seen_txt)) or not isinstance(fn.body[-1], ast.Return):
        raise TranslateError("integrate: repeated statement / no final return")
    if fn.decorator_list or [a.arg for a in fn.args.args] != ["self", "axis", "weight"]:
        raise TranslateError("integrate: signature")
    want_else = ["newBasis.append(self.basis[i])", "newDirection.append(self.direction[i])",
                 "newEndpoints.append(self.endpoints[i])"]
    if [ast.unparse(x) for x in loops[1].body[0].orelse] != want_else or loops[1].orelse \
            or loops[0].orelse:
        raise TranslateError("integrate: bookkeeping of the remaining axes")
    # (2) nodal weights, by symbolic interpretation of the weights block per direction
    l2 = loops[1]
    if not (len(l2.body) == 1 and isinstance(l2.body[0], ast.If) and
            ast.unparse(l2.body[0].test) == "i in axis"):
        raise TranslateError("integrate: weight loop")
    block = l2.body[0].body
    env = pyrx.Env()
    env.v.update({"N": "N", "M": "M", "compactCoord": "x"})

    def interp(stmts, w, direction, final):
        for st in stmts:
            if isinstance(st, ast.Assign) and ast.unparse(st.targets[0]) == "compactCoord":
                if ast.unparse(st.value) != \
                        "self.grid.getCompactCoordinates(self.endpoints[i], self.direction[i])":
                    raise TranslateError("integrate: compactCoord source")
                continue
            if isinstance(st, ast.Assign) and ast.unparse(st.targets[0]) == "weights":
                v = st.value
                if not (isinstance(v, ast.BinOp) and isinstance(v.op, ast.Mult) and
                        ast.unparse(v.right) == "np.ones(compactCoord.size)"):
                    raise TranslateError("integrate: initial weights")
                w = tr.expr(v.left, env)
                continue
            if isinstance(st, ast.Assign) and len(st.targets) == 1 and \
                    isinstance(st.targets[0], ast.Name) and \
                    isinstance(st.value, ast.BinOp) and \
                    isinstance(st.value.op, (ast.Div, ast.Mult)) and \
                    ast.unparse(st.value.left) == st.targets[0].id and \
                    st.targets[0].id in ("weights", "integrand"):
                # x = x * e  is the same update as  x *= e
                st = ast.copy_location(ast.AugAssign(target=st.targets[0], op=st.value.op,
                                                     value=st.value.right), st)
            if isinstance(st, ast.AugAssign) and isinstance(st.op, (ast.Div, ast.Mult)):
                op = "/" if isinstance(st.op, ast.Div) else "*"
                t = ast.unparse(st.target)
                val = None if t == "integrand" else \
                    tr.expr(_SelfToName().visit(st.value), env)
                if t == "weights":
                    w = "(%s %s %s)" % (w, op, val)
                elif t == "weights[0]":
                    w = "(if first then %s %s %s else %s)" % (w, op, val, w)
                elif t == "weights[-1]":
                    w = "(if last then %s %s %s else %s)" % (w, op, val, w)
                elif t == "integrand":
                    c = st.value
                    if not (op == "*" and isinstance(c, ast.Call) and
                            ast.unparse(c.func) == "np.expand_dims"):
                        raise TranslateError("integrate: integrand update")
                    e2 = env.copy()
                    e2.v["weights"] = w
                    final.append(tr.expr(c.args[0], e2))
                else:
                    raise TranslateError("integrate: update of %s" % t)
                continue
            if isinstance(st, ast.If):
                t = ast.unparse(st.test)
                if t.startswith("self.direction[i] == "):
                    d = ast.literal_eval(t.split("==")[1].strip())
                    w = interp(st.body if d == direction else st.orelse, w, direction,
                               final)
                elif t == "self.endpoints[i]":
                    w = "(if endpoints then %s else %s)" % (
                        interp(st.body, w, direction, final),
                        interp(st.orelse, w, direction, final))
                elif t == "not self.endpoints[i]":
                    w = "(if endpoints then %s else %s)" % (
                        interp(st.orelse, w, direction, final),
                        interp(st.body, w, direction, final))
                else:
                    raise TranslateError("integrate: test %s" % t)
                continue
            raise TranslateError("integrate: statement (line %d)" % st.lineno)
        return w

    for d in ("z", "pz", "pp"):
        final = []
        interp(block, None, d, final)
        if len(final) != 1:
            raise TranslateError("integrate: nodal factor not found")
        body = final[0]
        ps = "".join("(%s : R) " % p for p in ("M", "N") if pyrx._mentions_word(body, p))
        out.append("Definition intNodeWeight_%s %s(endpoints first last : bool) (x : R) : R"
                   " :=\n  %s." % (d, ps, body))
    tr.spans["integrate"] = (fn.lineno, fn.end_lineno, pyrx._sha(ast.unparse(fn)))
    return "\n".join(out), tr


# ------------------------------------------------------------------------------------
# boltzmann.py : BoltzmannSolver.getDeltas

def _bcast_axes(sub):
    """X[None, None, :, None] -> (X node, [2]); None when not of that shape"""
    if not isinstance(sub, ast.Subscript) or not isinstance(sub.slice, ast.Tuple):
        return None
    axes = []
    for k, e in enumerate(sub.slice.elts):
        if isinstance(e, ast.Constant) and e.value is None:
            continue
        if isinstance(e, ast.Slice) and e.lower is None and e.upper is None and \
                e.step is None:
            axes.append(k)
            continue
        return None
    return sub.value, axes


def _basis_term(node):
    if isinstance(node, ast.Constant) and node.value in ("Array", "Cardinal", "Chebyshev"):
        return "B" + node.value
    if _is_self_attr(node, ["basisM"]):
        return "bM"
    if _is_self_attr(node, ["basisN"]):
        return "bN"
    raise TranslateError("basis %s" % ast.unparse(node))


def _observer_pure(cls, mname, seen=None):
    """an observer x = self.m(deltaF) must not be able to write into deltaF: syntactic,
    conservative (out=/copy=False keywords, in-place stores into deltaF or into the
    coefficients of a Polynomial wrapping it, mutating ndarray methods), recursive through
    self.* calls that receive deltaF"""
    seen = seen if seen is not None else set()
    if mname in seen:
        return
    seen.add(mname)
    fn = _method(cls, mname)
    if fn.decorator_list:
        raise TranslateError("observer %s is decorated" % mname)
    # names that (may) alias deltaF: the parameter, and locals built directly from it
    alias = {a.arg for a in fn.args.args if a.arg != "self"}
    for n in ast.walk(fn):
        if isinstance(n, ast.Assign) and any(
                isinstance(m, ast.Name) and m.id in alias for m in ast.walk(n.value)):
            for t in n.targets:
                for m in ast.walk(t):
                    if isinstance(m, ast.Name):
                        alias.add(m.id)

    def touches(node):
        return any(isinstance(m, ast.Name) and m.id in alias for m in ast.walk(node))
    for n in ast.walk(fn):
        if isinstance(n, ast.Call):
            for kw in n.keywords:
                if kw.arg == "out" or (kw.arg == "copy" and ast.unparse(kw.value) == "False"):
                    raise TranslateError("observer %s uses %s= (line %d)" % (
                        mname, kw.arg, n.lineno))
            if isinstance(n.func, ast.Attribute) and n.func.attr in (
                    "fill", "sort", "put", "itemset", "resize", "partition", "clip") and \
                    touches(n.func.value) and n.func.attr != "clip":
                raise TranslateError("observer %s mutates its argument (line %d)" % (
                    mname, n.lineno))
            if ast.unparse(n.func) in ("np.copyto", "np.put", "np.place", "np.putmask",
                                       "np.nan_to_num") and n.args and touches(n.args[0]) \
                    and ast.unparse(n.func) != "np.nan_to_num":
                raise TranslateError("observer %s writes into its argument (line %d)" % (
                    mname, n.lineno))
            if _is_self_attr(n.func) and any(touches(a) for a in n.args) and \
                    any(f.name == n.func.attr for f in cls.body
                        if isinstance(f, ast.FunctionDef)):
                _observer_pure(cls, n.func.attr, seen)
        if isinstance(n, (ast.Subscript, ast.Attribute)) and \
                isinstance(n.ctx, (ast.Store, ast.Del)) and touches(n):
            if isinstance(n, ast.Subscript) or n.attr == "coefficients":
                raise TranslateError("observer %s stores into %s (line %d)" % (
                    mname, ast.unparse(n)[:40], n.lineno))
        if isinstance(n, ast.AugAssign) and touches(n.target) and not isinstance(
                n.target, ast.Name):
            raise TranslateError("observer %s updates %s in place (line %d)" % (
                mname, ast.unparse(n.target)[:40], n.lineno))
        if isinstance(n, ast.AugAssign) and isinstance(n.target, ast.Name) and \
                n.target.id in alias:
            raise TranslateError("observer %s updates %s in place (line %d)" % (
                mname, n.target.id, n.lineno))


def gen_getdeltas(src, getters, intw_params):
    """Statement-by-statement recogniser of getDeltas: EVERY statement must be of one of the
    recognised forms (single assignment; no control flow except the `deltaF is None`
    prologue; no augmented / subscript / attribute stores; one final return)."""
    tree = ast.parse(src)
    cls = _class(tree, "BoltzmannSolver")
    fn = _method(cls, "getDeltas")
    if [a.arg for a in fn.args.args] != ["self", "deltaF"] or fn.args.vararg or \
            fn.args.kwarg or fn.args.kwonlyargs or fn.decorator_list:
        raise TranslateError("getDeltas: signature")
    tr = pyrx.ClassTranslator(src, "BoltzmannSolver", [], [], [])
    bcast = {}       # name -> (kind, detail, axes)
    unpacked = {}    # name -> grid attribute (from a getter)
    scal = []        # scalar assignments (ast) in order
    ops = []
    weights = {}     # local -> (axes, expr ast)
    poly = None
    fields = None
    dirs = None
    endpoints = None
    bound = {"self": "param", "deltaF": "param"}    # every local and what it is
    aux = set()          # observers of deltaF (error estimates), only allowed in the return
    particles_name = None
    field_name = None
    deltas_name = None
    returned = False
    prologue_seen = False

    def fresh(name, kind, st):
        if name in bound and not (kind == "bcast" and bound[name] == "unpacked"):
            raise TranslateError("getDeltas: %s is re-bound (line %d)" % (name, st.lineno))
        bound[name] = kind

    def only_names(node, allowed, what):
        for n in ast.walk(node):
            if isinstance(n, ast.Name) and n.id not in allowed:
                raise TranslateError("getDeltas: %s uses %s (line %d)" % (
                    what, n.id, node.lineno))

    body = list(fn.body)
    for pos, st in enumerate(body):
        if returned:
            raise TranslateError("getDeltas: code after return (line %d)" % st.lineno)
        if _is_doc(st):
            continue
        # --- the only conditional: the deltaF-is-None prologue ----------------------------
        if isinstance(st, ast.If):
            if prologue_seen or len(bound) != 2 or st.orelse or \
                    ast.unparse(st.test) != "deltaF is None" or len(st.body) != 1 or \
                    ast.unparse(st.body[0]) != "deltaF = self.solveBoltzmannEquations()":
                raise TranslateError("getDeltas: conditional outside the subset (line %d): %s"
                                     % (st.lineno, ast.unparse(st.test)[:50]))
            prologue_seen = True
            continue
        # --- return -------------------------------------------------------------------------
        if isinstance(st, ast.Return):
            v = st.value
            if not (isinstance(v, ast.Call) and ast.unparse(v.func) == "BoltzmannResults"
                    and not v.args):
                raise TranslateError("getDeltas: return value (line %d)" % st.lineno)
            kw = {k.arg: k.value for k in v.keywords}
            if None in kw or "deltaF" not in kw or "Deltas" not in kw or \
                    ast.unparse(kw["deltaF"]) != "deltaF" or \
                    not isinstance(kw["Deltas"], ast.Name) or kw["Deltas"].id != deltas_name:
                raise TranslateError("getDeltas: BoltzmannResults(deltaF=deltaF, Deltas=...) "
                                     "expected (line %d)" % st.lineno)
            for k, val in kw.items():
                if k in ("deltaF", "Deltas"):
                    continue
                if not (isinstance(val, ast.Name) and val.id in aux):
                    raise TranslateError("getDeltas: returned %s=%s" % (k, ast.unparse(val)))
            returned = True
            continue
        # --- deltaFPoly.changeBasis(...) ------------------------------------------------------
        if isinstance(st, ast.Expr):
            c = st.value
            if isinstance(c, ast.Call) and isinstance(c.func, ast.Attribute) and \
                    isinstance(c.func.value, ast.Name) and poly is not None and \
                    c.func.value.id == poly and c.func.attr == "changeBasis" and \
                    len(c.args) == 1 and not c.keywords and isinstance(c.args[0], ast.Tuple):
                ops.append("PChangeBasis [%s]" % "; ".join(
                    _basis_term(e) for e in c.args[0].elts))
                continue
            raise TranslateError("getDeltas: expression statement (line %d): %s" % (
                st.lineno, ast.unparse(st)[:60]))
        if not isinstance(st, ast.Assign) or len(st.targets) != 1:
            raise TranslateError("getDeltas: statement outside the subset (line %d): %s" % (
                st.lineno, ast.unparse(st)[:60]))
        tg, val = st.targets[0], st.value
        # --- tuple targets ------------------------------------------------------------------
        if isinstance(tg, ast.Tuple):
            if not all(isinstance(e, ast.Name) for e in tg.elts):
                raise TranslateError("getDeltas: unpack target (line %d)" % st.lineno)
            if isinstance(val, ast.Call) and isinstance(val.func, ast.Attribute) and \
                    _is_self_attr(val.func.value, ["grid"]):
                g = val.func.attr
                if g not in getters or val.args or val.keywords or \
                        len(tg.elts) != len(getters[g]):
                    raise TranslateError("getDeltas: grid getter %s (line %d)" % (
                        ast.unparse(val), st.lineno))
                for e, a in zip(tg.elts, getters[g]):
                    if e.id == "_":
                        continue
                    fresh(e.id, "unpacked", st)
                    unpacked[e.id] = a
                continue
            if isinstance(val, ast.Call) and _is_self_attr(val.func) and \
                    [ast.unparse(a) for a in val.args] == ["deltaF"] and not val.keywords:
                _observer_pure(cls, val.func.attr)
                for e in tg.elts:
                    fresh(e.id, "aux", st)
                    aux.add(e.id)
                continue
            raise TranslateError("getDeltas: tuple assignment (line %d)" % st.lineno)
        if not isinstance(tg, ast.Name):
            raise TranslateError("getDeltas: store to %s (line %d)" % (
                ast.unparse(tg)[:40], st.lineno))
        name = tg.id
        # --- observers of deltaF (error estimates) -----------------------------------------
        if isinstance(val, ast.Call) and _is_self_attr(val.func) and \
                [ast.unparse(a) for a in val.args] == ["deltaF"] and not val.keywords:
            _observer_pure(cls, val.func.attr)
            fresh(name, "aux", st)
            aux.add(name)
            continue
        # --- particles = self.offEqParticles --------------------------------------------------
        if _is_self_attr(val, ["offEqParticles"]):
            fresh(name, "particles", st)
            particles_name = name
            continue
        # --- field = self.background.fieldProfiles.takeSlice(1, -1, axis=...overFieldPoints) --
        if ast.unparse(val) == "self.background.fieldProfiles.takeSlice(1, -1, " \
                               "axis=self.background.fieldProfiles.overFieldPoints)":
            fresh(name, "field", st)
            field_name = name
            continue
        # --- Polynomial construction ---------------------------------------------------------
        if isinstance(val, ast.Call) and isinstance(val.func, ast.Name) and \
                val.func.id == "Polynomial":
            a = val.args
            if len(a) != 5 or val.keywords or ast.unparse(a[0]) != "deltaF" or \
                    ast.unparse(a[1]) != "self.grid" or not isinstance(a[2], ast.Tuple) \
                    or not isinstance(a[3], ast.Tuple) or \
                    not isinstance(a[4], ast.Constant) or poly is not None:
                raise TranslateError("getDeltas: Polynomial(...) shape")
            fresh(name, "poly", st)
            poly = name
            dirs = [ast.literal_eval(e) for e in a[3].elts]
            endpoints = bool(a[4].value)
            ops.append("PNew [%s]" % "; ".join(_basis_term(e) for e in a[2].elts))
            continue
        # --- integrate -------------------------------------------------------------------------
        if isinstance(val, ast.Call) and isinstance(val.func, ast.Attribute) and \
                isinstance(val.func.value, ast.Name) and poly is not None and \
                val.func.value.id == poly:
            if val.func.attr != "integrate" or len(val.args) != 2 or val.keywords:
                raise TranslateError("getDeltas: %s" % ast.unparse(val)[:50])
            axes = list(ast.literal_eval(val.args[0]))
            only_names(val.args[1], set(bcast) | {s_.targets[0].id for s_ in scal} | {"np"},
                       "integration weight")
            fresh(name, "moment", st)
            weights[name] = (axes, val.args[1])
            ops.append("PIntegrate [%s]" % "; ".join("%d%%nat" % x for x in axes))
            continue
        # --- BoltzmannDeltas(...) --------------------------------------------------------------
        if isinstance(val, ast.Call) and isinstance(val.func, ast.Name) and \
                val.func.id == "BoltzmannDeltas":
            if val.args or not all(isinstance(k.value, ast.Name) and k.arg
                                   for k in val.keywords) or deltas_name is not None:
                raise TranslateError("getDeltas: BoltzmannDeltas(...) shape")
            fresh(name, "deltas", st)
            deltas_name = name
            fields = {k.arg: k.value.id for k in val.keywords}
            continue
        # --- broadcast views -------------------------------------------------------------------
        b = _bcast_axes(val)
        if b is not None:
            base, axes = b
            if isinstance(base, ast.Attribute) and _is_self_attr(base.value, ["grid"]) \
                    and base.attr in ARRAYS:
                fresh(name, "bcast", st)
                bcast[name] = ("grid", base.attr, axes)
            elif isinstance(base, ast.Name) and base.id in unpacked and base.id == name:
                fresh(name, "bcast", st)
                bound[name] = "bcast"
                bcast[name] = ("grid", unpacked[base.id], axes)
            elif axes == [0, 1] and particles_name and field_name and ast.unparse(base) == \
                    "np.array([particle.msqVacuum(%s) for particle in %s])" % (
                        field_name, particles_name):
                fresh(name, "bcast", st)
                bcast[name] = ("msq", None, axes)
            else:
                raise TranslateError("getDeltas: broadcast of %s (line %d)" % (
                    ast.unparse(base)[:50], st.lineno))
            continue
        # --- scalar formulas over the broadcast views (anything else fails in pyrx) --------------
        only_names(val, {k for k, v in bound.items() if v == "bcast"} |
                   {s_.targets[0].id for s_ in scal} | {"np"}, "formula for %s" % name)
        fresh(name, "scalar", st)
        e0 = pyrx.Env()
        for p_ in list(bcast) + [s_.targets[0].id for s_ in scal]:
            e0.v[p_] = p_
        tr.expr(val, e0)          # fail closed on anything pyrx cannot express
        scal.append(st)
    if not returned:
        raise TranslateError("getDeltas: no final return")
    for nm, kind in bound.items():
        if kind == "unpacked":
            raise TranslateError("getDeltas: %s is used without its broadcast axes" % nm)
    if poly is None or fields is None or not weights:
        raise TranslateError("getDeltas: Polynomial / integrate / BoltzmannDeltas not found")
    if dirs[0] != "Array" or endpoints:
        raise TranslateError("getDeltas: unexpected directions/endpoints")
    if not any(k == "msq" for k, _, _ in bcast.values()):
        raise TranslateError("getDeltas: the mass array was not recognised")
    params = list(bcast)
    env = pyrx.Env()
    for p in params:
        env.v[p] = p
    ptxt = " ".join(params)
    out = ["(* ---- generated from src/WallGo/boltzmann.py (BoltzmannSolver.getDeltas) "
           "---- *)"]
    for k, s in enumerate(scal):
        blk = scal[:k] + [ast.Return(value=s.value, lineno=s.lineno)]
        out.append("Definition gd_%s (%s : R) : R :=\n  %s." % (
            s.targets[0].id, ptxt, tr.block(blk, env.copy(), None)))
    for f, local in fields.items():
        if local not in weights:
            raise TranslateError("getDeltas: %s is not the result of integrate" % local)
        axes, w = weights[local]
        blk = scal + [ast.Return(value=w, lineno=fn.lineno)]
        out.append("Definition w_%s (%s : R) : R :=\n  %s." % (
            f, ptxt, tr.block(blk, env.copy(), None)))
    out.append("Definition getDeltas_ops (bM bN : basis) : list pop :=\n  [%s]." %
               ";\n   ".join(ops))
    out.append("Definition getDeltas_directions : list string := [%s]." % "; ".join(
        '"%s"' % d for d in dirs))
    # assembled moments
    for f, local in fields.items():
        axes, _ = weights[local]
        for a in axes:
            if dirs[a] not in ("pz", "pp"):
                raise TranslateError("getDeltas: integrates over direction %s" % dirs[a])
        if sorted(axes) != [2, 3] or dirs[2:] != ["pz", "pp"]:
            raise TranslateError("getDeltas: integration axes %s of %s" % (axes, dirs))

        def node(a):
            return "(%sNode (INR N) i%d)" % (DIR_NODE[dirs[a]], a)
        args = []
        for p in params:
            kind, attr, ax = bcast[p]
            if kind == "msq":
                args.append("msq")
            else:
                if len(ax) != 1 or ax[0] not in axes:
                    raise TranslateError("getDeltas: %s lives on axes %s" % (p, ax))
                args.append("(s_%s s %s)" % (attr, node(ax[0])))
        body = "(w_%s %s) * f %s" % (f, " ".join(args), " ".join(node(a) for a in
                                                                sorted(axes)))
        for a in sorted(axes):
            d = dirs[a]
            nm = DIR_NODE[d]
            body += "\n      * intNodeWeight_%s %s%s (Nat.eqb i%d %s_lo) (Nat.eqb (S i%d) " \
                    "(%s_hi N)) %s" % (d, "(INR N) " if intw_params[d] else "",
                                       "true" if endpoints else "false", a, nm, a, nm,
                                       node(a))
        for a in sorted(axes, reverse=True):
            nm = DIR_NODE[dirs[a]]
            body = "sumf %s_lo (%s_hi N) (fun i%d : nat =>\n    %s)" % (nm, nm, a, body)
        out.append("Definition gd_moment_%s (s : gst) (N : nat) (msq : R) "
                   "(f : R -> R -> R) : R :=\n  %s." % (f, body))
    tr.spans["getDeltas"] = (fn.lineno, fn.end_lineno, pyrx._sha(ast.unparse(fn)))
    facts = dict(params=params, bcast={k: list(v) for k, v in bcast.items()},
                 fields=fields, ops=ops, directions=dirs)
    return "\n".join(out), tr, facts


# ------------------------------------------------------------------------------------
# equationOfMotion.py : EOM.deltaToTmunu, helpers.gammaSq

def gen_tmunu(eom_src, helpers_src):
    htree = ast.parse(helpers_src)
    g = [n for n in htree.body if isinstance(n, ast.FunctionDef) and n.name == "gammaSq"]
    if len(g) != 1 or [a.arg for a in g[0].args.args] != ["v"]:
        raise TranslateError("helpers.gammaSq not found")
    trh = pyrx.ClassTranslator("class H:\n    pass\n", "H", [], [], [])
    env = pyrx.Env()
    env.v["v"] = "v"
    out = ["(* ---- generated from src/WallGo/helpers.py (gammaSq) ---- *)",
           "Definition gammaSq (v : R) : R :=\n  %s." % trh.block(g[0].body, env, None)]
    tree = ast.parse(eom_src)
    cls = _class(tree, "EOM")
    fn = _method(cls, "deltaToTmunu")
    if [a.arg for a in fn.args.args] != ["self", "index", "fields", "velocityMid",
                                         "offEquilDeltas"]:
        raise TranslateError("deltaToTmunu: parameters")
    reads, scal, sums = {}, [], {}
    for st in fn.body:
        if _is_doc(st):
            continue
        if isinstance(st, ast.Return):
            if ast.unparse(st.value) != "(T30, T33)":
                raise TranslateError("deltaToTmunu: return value")
            continue
        if not (isinstance(st, ast.Assign) and len(st.targets) == 1 and
                isinstance(st.targets[0], ast.Name)):
            raise TranslateError("deltaToTmunu: statement (line %d)" % st.lineno)
        name, val = st.targets[0].id, st.value
        txt = ast.unparse(val)
        if txt.startswith("offEquilDeltas."):
            parts = txt.split(".")
            if len(parts) != 3 or parts[2] != "coefficients[:, index]":
                raise TranslateError("deltaToTmunu: read %s" % txt)
            reads[name] = parts[1]
            continue
        if isinstance(val, ast.Call) and ast.unparse(val.func) == "np.sum" and \
                len(val.args) == 1 and isinstance(val.args[0], ast.ListComp):
            lc = val.args[0]
            if len(lc.generators) != 1 or ast.unparse(lc.generators[0].target) != \
                    "(i, particle)" or ast.unparse(lc.generators[0].iter) != \
                    "enumerate(self.particles)" or lc.generators[0].ifs:
                raise TranslateError("deltaToTmunu: sum over particles")
            sums[name] = lc.elt
            continue
        scal.append(st)
    if set(sums) != {"T30", "T33"}:
        raise TranslateError("deltaToTmunu: T30/T33 sums not found")
    pats = [Pattern("%s[i]" % loc, "t_%s" % fld, "R") for loc, fld in reads.items()]
    pats += [Pattern("particle.totalDOFs", "t_dof", "R"),
             Pattern("particle.msqVacuum(fields)", "t_msq", "R")]
    tr = pyrx.ClassTranslator(eom_src, "EOM", [], pats, [], prefix="t_")
    out.append("(* ---- generated from src/WallGo/equationOfMotion.py (EOM.deltaToTmunu) "
               "---- *)")
    # fixed field order for the record
    order = ["Delta00", "Delta02", "Delta20", "Delta11"]
    if sorted(reads.values()) != sorted(order):
        raise TranslateError("deltaToTmunu: reads %s" % sorted(reads.values()))
    out.append("Record t_env := mk_t_env { %s; t_dof : R; t_msq : R }." % "; ".join(
        "t_%s : R" % f for f in order))
    for nm in ("T30", "T33"):
        env = pyrx.Env()
        env.v["velocityMid"] = "velocityMid"
        env.v[("gammaSq", "closure")] = "gammaSq"
        blk = scal + [ast.Return(value=sums[nm], lineno=fn.lineno)]
        out.append("Definition %s_term (e : t_env) (velocityMid : R) : R :=\n  %s." % (
            nm, tr.block(blk, env, None)))
    for st in scal:
        env = pyrx.Env()
        env.v["velocityMid"] = "velocityMid"
        env.v[("gammaSq", "closure")] = "gammaSq"
        k = scal.index(st)
        blk = scal[:k] + [ast.Return(value=st.value, lineno=st.lineno)]
        out.append("Definition tm_%s (velocityMid : R) : R :=\n  %s." % (
            st.targets[0].id, tr.block(blk, env, None)))
    tr.spans["deltaToTmunu"] = (fn.lineno, fn.end_lineno, pyrx._sha(ast.unparse(fn)))
    return "\n".join(out), tr, dict(reads=reads)


# ------------------------------------------------------------------------------------
# plumbing around getDeltas: where msq and the particle list come from (facts, fail closed)

def _bound_by_import(src, fname, names):
    """each name is bound exactly once at module level, by `from <module> import name`"""
    tree = ast.parse(src)
    for nm, module in names.items():
        binders = []
        for st in tree.body:
            if isinstance(st, ast.ImportFrom):
                for a in st.names:
                    if (a.asname or a.name) == nm:
                        binders.append("from %s%s import %s" % ("." * st.level,
                                                                st.module or "", a.name))
            elif isinstance(st, ast.Import):
                for a in st.names:
                    if (a.asname or a.name.split(".")[0]) == nm:
                        binders.append("import " + a.name)
            elif isinstance(st, (ast.FunctionDef, ast.ClassDef, ast.AsyncFunctionDef)):
                if st.name == nm:
                    binders.append("def/class %s (line %d)" % (nm, st.lineno))
            else:
                for n in ast.walk(st):
                    if isinstance(n, ast.Name) and n.id == nm and \
                            isinstance(n.ctx, (ast.Store, ast.Del)):
                        binders.append("assignment (line %d)" % n.lineno)
                    if isinstance(n, ast.Global) and nm in n.names:
                        binders.append("global (line %d)" % n.lineno)
        if binders != ["from %s import %s" % (module, nm)]:
            raise TranslateError("%s: the name %s is bound by %s, expected `from %s import "
                                 "%s` only" % (fname, nm, binders, module, nm))
    # no function re-binds them locally or as a global either
    for n in ast.walk(tree):
        if isinstance(n, (ast.Global, ast.Nonlocal)) and set(n.names) & set(names):
            raise TranslateError("%s: global/nonlocal re-binding of %s" % (fname, n.names))


COPY_CLASSES = {"containers.py": ["BoltzmannBackground"], "fields.py": ["Fields", "FieldPoint"]}
COPY_HOOKS = ("__deepcopy__", "__copy__", "__getstate__", "__setstate__", "__reduce__",
              "__reduce_ex__", "__getattr__", "__getattribute__", "__setattr__",
              "__delattr__")


def gen_copy_facts(package):
    """what deepcopy(background) does is decided by the copy protocol of the classes the
    background is made of: none of them may customise it (fail closed)"""
    facts = []
    for fname, classes in COPY_CLASSES.items():
        if fname not in package:
            raise TranslateError("%s not found in the package" % fname)
        tree = ast.parse(package[fname])
        for cname in classes:
            cls = _class(tree, cname)
            for f in cls.body:
                if isinstance(f, (ast.FunctionDef, ast.AsyncFunctionDef)) and \
                        f.name in COPY_HOOKS:
                    raise TranslateError("class %s defines the copy/attribute hook %s "
                                         "(line %d): deepcopy(background) is no longer a "
                                         "plain deep copy" % (cname, f.name, f.lineno))
                if isinstance(f, (ast.Assign, ast.AnnAssign)):
                    tg = f.targets if isinstance(f, ast.Assign) else [f.target]
                    if any(isinstance(t, ast.Name) and t.id in COPY_HOOKS + ("__slots__",)
                           for t in tg):
                        raise TranslateError("class %s assigns %s at class level" % (
                            cname, ast.unparse(tg[0])))
            if any(k.arg == "metaclass" for k in cls.keywords) or cls.decorator_list:
                raise TranslateError("class %s: metaclass / decorator" % cname)
            facts.append("%s: no copy hooks" % cname)
        for st in tree.body:           # copyreg / module-level patching of the protocol
            txt = ast.unparse(st)
            if "copyreg" in txt or any(("." + h) in txt for h in COPY_HOOKS
                                       if not isinstance(st, ast.ClassDef)):
                raise TranslateError("%s: module-level use of the copy protocol: %s" % (
                    fname, txt[:60]))
    return facts


def gen_plumbing(boltz_src, eom_src):
    cls = _class(ast.parse(boltz_src), "BoltzmannSolver")
    facts = []
    _bound_by_import(boltz_src, "boltzmann.py", {
        "deepcopy": "copy", "Polynomial": ".polynomial", "BoltzmannDeltas": ".containers",
        "BoltzmannResults": ".results"})
    _bound_by_import(eom_src, "equationOfMotion.py", {"gammaSq": ".helpers"})
    init = _method(cls, "__init__")
    if sum(ast.unparse(st) == "self.grid = grid" for st in init.body) != 1 or \
            "grid" not in [a.arg for a in init.args.args]:
        raise TranslateError("BoltzmannSolver.__init__ does not keep the caller's grid object")
    for st in init.body:
        for n in ast.walk(st):
            if isinstance(n, ast.Name) and n.id == "grid" and isinstance(n.ctx, ast.Store):
                raise TranslateError("BoltzmannSolver.__init__ re-binds grid")
    facts.append("BoltzmannSolver.grid is the caller's grid object")
    # setBackground installs a copy of the WHOLE background, then boosts it
    fn = _method(cls, "setBackground")
    body = [ast.unparse(st) for st in fn.body if not _is_doc(st)]
    if [a.arg for a in fn.args.args] != ["self", "background"] or fn.decorator_list or \
            len(body) != 2 or body[0] not in ("self.background = deepcopy(background)",
                                              "self.background = copy.deepcopy(background)") \
            or body[1] != "self.background.boostToPlasmaFrame()":
        raise TranslateError("setBackground does not install a fresh copy of the whole "
                             "background: %s" % " ; ".join(body)[:120])
    facts.append("setBackground: self.background := deepcopy(background); boost")
    # updateParticleList
    fn = _method(cls, "updateParticleList")
    body = [st for st in fn.body if not _is_doc(st)]
    for st in body[:-1]:
        if not (isinstance(st, ast.For) and all(isinstance(x, ast.Assert) for x in st.body)
                and not st.orelse):
            raise TranslateError("updateParticleList: statement (line %d)" % st.lineno)
    if not body or ast.unparse(body[-1]) != "self.offEqParticles = offEqParticles":
        raise TranslateError("updateParticleList does not install the given list")
    facts.append("updateParticleList: self.offEqParticles := offEqParticles")
    # who else writes these attributes
    for f in cls.body:
        if not isinstance(f, ast.FunctionDef):
            continue
        for n in ast.walk(f):
            if isinstance(n, ast.Attribute) and isinstance(n.ctx, ast.Store):
                tgt = ast.unparse(n)
                if tgt.startswith("self.background") and f.name not in ("__init__",
                                                                         "setBackground"):
                    raise TranslateError("%s writes %s" % (f.name, tgt))
                if tgt.startswith("self.offEqParticles") and f.name not in (
                        "__init__", "updateParticleList"):
                    raise TranslateError("%s writes %s" % (f.name, tgt))
                if tgt.startswith("self.grid") and f.name != "__init__":
                    raise TranslateError("%s writes %s" % (f.name, tgt))
    # EOM.particles is the solver's list
    ecls = _class(ast.parse(eom_src), "EOM")
    binds = []
    for f in ecls.body:
        if isinstance(f, ast.FunctionDef):
            for n in ast.walk(f):
                if isinstance(n, ast.Assign) and any(
                        ast.unparse(t) == "self.particles" for t in n.targets):
                    binds.append((f.name, ast.unparse(n.value)))
    if binds != [("__init__", "self.boltzmannSolver.offEqParticles")]:
        raise TranslateError("EOM.particles bindings: %s" % binds)
    facts.append("EOM.particles := boltzmannSolver.offEqParticles (in __init__ only)")
    return facts


PRELUDE = """From Coq Require Import Reals List String Bool Arith.
From WG Require Import Lib.NumpySem Lib.Moments.
Import ListNotations.
Local Open Scope string_scope.
Local Open Scope R_scope.
"""


def generate(grid_src, poly_src, boltz_src, eom_src, helpers_src, package=None):
    """`package`: {file name: source} of every module of the package (to find the subclasses
    of Grid); the known subclass Grid3Scales is required."""
    g_txt, g_tr, getters = gen_grid(grid_src)
    subs = find_grid_subclasses(package or {})
    if package is not None:
        if "Grid3Scales" not in subs:
            raise TranslateError("class Grid3Scales(Grid) not found in the package")
        extra = sorted(set(subs) - {"Grid3Scales"})
        if extra:
            raise TranslateError("subclasses of Grid outside the model: %s" % extra)
        s_txt, s_tr = gen_grid_subclass(subs["Grid3Scales"][1], "Grid3Scales", grid_src, "g3")
        g_txt = g_txt + "\n" + s_txt
    i_txt, i_tr = gen_integrate(poly_src)
    intw_params = {}
    for d in ("z", "pz", "pp"):
        line = [l for l in i_txt.splitlines() if l.startswith(
            "Definition intNodeWeight_%s " % d)][0]
        if "(M : R)" in line and d != "z":
            raise TranslateError("integrate: momentum weight depends on M")
        intw_params[d] = "(N : R)" in line or "(M : R)" in line
    b_txt, b_tr, facts = gen_getdeltas(boltz_src, getters, intw_params)
    t_txt, t_tr, tfacts = gen_tmunu(eom_src, helpers_src)
    spans = {}
    for nm, tr in (("grid.py", g_tr), ("polynomial.py", i_tr), ("boltzmann.py", b_tr),
                   ("equationOfMotion.py", t_tr)):
        spans[nm] = tr.spans
    if package is not None:
        spans[subs["Grid3Scales"][0]] = s_tr.spans
    facts.update(tfacts)
    facts["getters"] = getters
    facts["plumbing"] = gen_plumbing(boltz_src, eom_src)
    if package is not None:
        facts["plumbing"] += gen_copy_facts(package)
    text = PRELUDE + "\n".join([g_txt, i_txt, b_txt, t_txt]) + "\n"
    return text, spans, facts


if __name__ == "__main__":
    import sys
    import vlib
    import os
    pk = {f: open(os.path.join(vlib.SRC, f)).read() for f in sorted(os.listdir(vlib.SRC))
          if f.endswith(".py")}
    t, sp, fc = generate(*[vlib.read_src(f) for f in (
        "grid.py", "polynomial.py", "boltzmann.py", "equationOfMotion.py", "helpers.py")],
        package=pk)
    sys.stdout.write(t)
    sys.stderr.write(repr(fc) + "\n")
