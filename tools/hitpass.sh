#!/bin/bash
# tools/hitpass.sh tier "seeds" [pids...] : run the checks over several seeds on /repo (4 properties at a time),
# keep each run's evidence under build/hitpass/<pid>.<tier>.<seed>.json and print rc + known-finding hit counts
tier=$1; seeds=$2; shift 2
pids=${@:-C01 C02 C03 C04 C05 C06 C07 C08 C09 C10 C11 C12 C13 C14 C15 C16 C17 C18 C19 C20}
mkdir -p /verif/build/hitpass
one() { pid=$1; tier=$2; shift 2
  for s in "$@"; do
    VERIF_SEED=$s timeout 7200 /verif/check $pid --tier $tier > /verif/build/hitpass/$pid.$tier.$s.log 2>&1; rc=$?
    cp /verif/evidence/$pid.json /verif/build/hitpass/$pid.$tier.$s.json 2>/dev/null
    echo "$pid $tier seed=$s rc=$rc $(grep -c '^VIOLATION' /verif/build/hitpass/$pid.$tier.$s.log) viol $(python3 -c "
import json,sys
e=json.load(open('/verif/build/hitpass/$pid.$tier.$s.json'))
print(' '.join('%s=%s'%(h['key'],h.get('hits','?')) for h in e['coverage'].get('known_findings_hit',[])), 'wall', e.get('wall_s'))")"
  done; }
export -f one
for p in $pids; do echo $p; done | xargs -P4 -I{} bash -c "one {} $tier $seeds"
