#!/bin/bash
# tools/try_mutant.sh Cxx path/to/patch.diff [tier]
# Applies a seeded change in the scratch worktree /tmp/wt/Cxx (never in /repo), runs the check
# against that worktree, and restores it.
pid=$1; patch=$2; tier=${3:-quick}
wt=/tmp/wt/$pid
[ -d $wt ] || git -C /repo worktree add -q --detach $wt HEAD
cd $wt || exit 2
git checkout -q -- . ; git checkout -q --detach main; git apply "$patch" || { echo "patch does not apply"; exit 2; }
cd /verif && WALLGO_REPO=$wt ./check $pid --tier $tier > /tmp/mut_$pid.log 2>&1; rc=$?
git -C $wt checkout -q -- .
grep -E "VIOLATION|KNOWN-FINDING|FAILING INPUT|obligations|failed|broken|translator" /tmp/mut_$pid.log | cut -c1-300 | head -12
echo "rc=$rc"
