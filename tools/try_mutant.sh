#!/bin/bash
# tools/try_mutant.sh Cxx path/to/patch.diff [tier]  -- apply a seeded change to /repo, run the check, undo
pid=$1; patch=$2; tier=${3:-quick}
cd /repo || exit 2
if ! git diff --quiet; then echo "repo dirty"; exit 2; fi
git apply "$patch" || { echo "patch does not apply"; exit 2; }
cd /verif && ./check $pid --tier $tier > /tmp/mut_$pid.log 2>&1; rc=$?
git -C /repo checkout -- .
grep -E "VIOLATION|KNOWN-FINDING|FAILING INPUT|obligations|failed|broken|translator" /tmp/mut_$pid.log | cut -c1-400 | head -12
echo "rc=$rc"
