"""clean-tree probes: (a) config knob phaseTracerFirstStep, (b) int-typed inputs"""
import sys, logging, numpy as np
import os; sys.path.insert(0, os.path.dirname(os.path.abspath(__file__)))
import logmodel, WallGo
from WallGo import Fields
S = logmodel.SPEC
def setup(u, firstStep=None, ints=False):
    st = logmodel.Setup()
    st.q.update(D=S["D"], E=S["E"], lam=S["lam"], g=S["g"], kappa=S["kappa"], T0=S["T0"] * u, mu=S["mu"] * u)
    m = WallGo.WallGoManager(); m.setVerbosity(logging.ERROR); m.registerModel(st.model)
    m.config.configThermodynamics.phaseTracerFirstStep = firstStep
    Tn, ph2, dT, dphi = S["Tn"] * u, S["ph2"] * u, S["dTscale"] * u, S["phiscale"] * u
    if ints:
        Tn, ph2, dT, dphi = int(round(Tn)), int(round(ph2)), int(round(dT)), int(round(dphi))
    m.setupThermodynamicsHydrodynamics(
        WallGo.PhaseInfo(temperature=Tn, phaseLocation1=Fields([0 if ints else 0.0]), phaseLocation2=Fields([ph2])),
        WallGo.VeffDerivativeSettings(temperatureVariationScale=dT, fieldValueVariationScale=[dphi]))
    th = m.thermodynamics
    return dict(alphaN=m.hydrodynamics.template.alN, vJ=m.hydrodynamics.vJ, ph2=np.asarray(m.phasesAtTn.phaseLocation2).ravel()[0] / u,
                ddpLow=float(th.ddpLowT(S["Tn"] * u)) / u ** 2, csqLow=float(th.csqLowT(S["Tn"] * u)),
                nodesHigh=len(th.freeEnergyHigh._interpolationPoints) if hasattr(th.freeEnergyHigh, "_interpolationPoints") else None)
for label, kw in (("firstStep=0.1 u=1", dict(u=1.0, firstStep=0.1)), ("firstStep=0.1 u=0.01", dict(u=0.01, firstStep=0.1)),
                  ("firstStep=0.1 u=100", dict(u=100.0, firstStep=0.1)),
                  ("float u=100", dict(u=100.0)), ("int   u=100", dict(u=100.0, ints=True))):
    try:
        print(label, setup(**kw))
    except Exception as e:
        print(label, "RAISES", type(e).__name__, str(e)[:150])
