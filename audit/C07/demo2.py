"""C07 audit, change 2: the SAME WallGoManager used for the model in units x1 (setup + solveWall) and
then for the same physics presented in units x0.01 (setup + solveWall) must give the same dimensionless
results, and dimensionful ones scaled by the unit factor, as a fresh manager in units x0.01.
Model: the harness's own polynomial "quarticwide" potential (kappa = 0), one field.
Run:  PYTHONPATH=<repo>/src python demo2.py      exit 0 = covariant, 1 = broken."""
import logging, math, sys
import numpy as np
import WallGo
from WallGo import Fields, GenericModel, Particle

S = dict(D=0.2, E=0.12, lam=0.1, T0=1.0, g=100.0, kappa=0.0, mu=4.5, Tn=1.8, dTscale=0.02,
         phiscale=1.0, ph2=4.5)


class Setup:
    def __init__(self):
        q = self.q = {}

        class Pot(WallGo.EffectivePotential):
            fieldCount = 1
            effectivePotentialError = 1e-15

            def evaluate(self, fields, temperature):
                phi = Fields(fields).getField(0)
                T = np.asarray(temperature)
                return (q["D"] * (T ** 2 - q["T0"] ** 2) * phi ** 2 - q["E"] * T * phi ** 3
                        + q["lam"] / 4 * phi ** 4 - q["g"] * math.pi ** 2 / 90 * T ** 4
                        + q["kappa"] * phi ** 4 * np.log((phi ** 2 + T ** 2) / q["mu"] ** 2))
        pot = self.pot = Pot()

        class Model(GenericModel):
            def __init__(self):
                self.effectivePotential = pot
                self.clearParticles()
                self.addParticle(Particle("top", index=1, msqVacuum=lambda f: 0.25 * f.getField(0) ** 2,
                                          msqDerivative=lambda f: 0.5 * f.getField(0),
                                          statistics="Fermion", totalDOFs=12))

            @property
            def fieldCount(self):
                return 1

            def getEffectivePotential(self):
                return self.effectivePotential
        self.model = Model()
        self.manager = None

    def setup(self, u):
        self.q.update(D=S["D"], E=S["E"], lam=S["lam"], g=S["g"], kappa=S["kappa"],
                      T0=S["T0"] * u, mu=S["mu"] * u)
        if self.manager is None:            # ONE manager per Setup, reused for every presentation
            m = WallGo.WallGoManager()
            m.setVerbosity(logging.CRITICAL)
            m.config.configGrid.spatialGridSize = 20
            m.config.configEOM.maxIterations = 25
            m.registerModel(self.model)
            self.manager = m
        m = self.manager
        m.setupThermodynamicsHydrodynamics(
            WallGo.PhaseInfo(temperature=S["Tn"] * u, phaseLocation1=Fields([0.0]),
                             phaseLocation2=Fields([S["ph2"] * u])),
            WallGo.VeffDerivativeSettings(temperatureVariationScale=S["dTscale"] * u,
                                          fieldValueVariationScale=[S["phiscale"] * u]))
        return m


SETTINGS = dict(bIncludeOffEquilibrium=False, meanFreePathScale=50.0, wallThicknessGuess=5.0)


def solve(m, u):
    Tn = S["Tn"] * u
    res = m.solveWall(WallGo.WallSolverSettings(**SETTINGS))
    return dict(alphaN=float(m.hydrodynamics.template.alN), vJ=float(m.hydrodynamics.vJ),
                vw=res.wallVelocity, success=res.success,
                widthTn=float(res.wallWidths[0]) * Tn, TplusOverTn=float(res.temperaturePlus) / Tn,
                TminusOverTn=float(res.temperatureMinus) / Tn)


def outputs(u, history=()):
    st = Setup()
    try:
        for h in history:
            solve(st.setup(h), h)          # earlier use of the manager: setup AND solveWall
        return solve(st.setup(u), u)
    except Exception as ex:                               # a run that raises is an output too
        return dict(raised="%s: %s" % (type(ex).__name__, str(ex)[:120]))


if __name__ == "__main__":
    fresh = outputs(1e-2)
    reused = outputs(1e-2, history=(1.0,))
    print("fresh manager, units x0.01                       :", fresh)
    print("same manager, units x1 (solved) then units x0.01  :", reused)
    bad = []
    if ("raised" in fresh) != ("raised" in reused):
        bad.append("raises in one presentation only")
    elif "raised" not in fresh:
        for k, tol in (("alphaN", 1e-4), ("vJ", 1e-4), ("vw", 3e-3), ("widthTn", 1e-2),
                       ("TplusOverTn", 2e-3), ("TminusOverTn", 2e-3)):
            a, b = fresh[k], reused[k]
            if (a is None) != (b is None) or (a is not None and abs(a - b) > tol * max(1.0, abs(a))):
                bad.append("%s: %r vs %r" % (k, a, b))
        if fresh["success"] != reused["success"]:
            bad.append("success flag differs")
    print("BROKEN: " + "; ".join(bad) if bad else "covariant")
    sys.exit(1 if bad else 0)
