import sys
sys.path.insert(0, "/verif/tools")
import os
os.environ.setdefault("WALLGO_REPO", "/tmp/wt2/C07")
import gen_units, vlib
src = {f: vlib.read_src(f) for f in set(gen_units.SIG_FILES + ["helpers.py", "hydrodynamics.py", "equationOfMotion.py", "grid3Scales.py"])}
base = gen_units.tolerance_sites(src)
print(len(base), "sites on clean tree")
flows = gen_units.input_flows(src)
print(len(flows), "flows; not always:", [f for f in flows if not f[2]])
def trial(label, file, old, new):
    assert old in src[file], label
    s2 = dict(src); s2[file] = src[file].replace(old, new, 1)
    try:
        st = gen_units.tolerance_sites(s2)
        new_sites = [s for s in st if s not in base]; gone = [s for s in base if s not in st]
        fl = gen_units.input_flows(s2)
        print("%-58s new=%s gone=%s flows_changed=%s" % (label, new_sites, gone, fl != flows))
    except Exception as e:
        print(label, "RAISES", e)
trial("Nelder-Mead options xatol/fatol", "equationOfMotion.py", 'method="Nelder-Mead",', 'method="Nelder-Mead", options={"xatol": 1e-4, "fatol": 1e-4},')
trial("minimize_scalar options xatol (T unknown)", "equationOfMotion.py", 'bounds=[0, 2 * max(Tplus, Tminus)],', 'bounds=[0, 2 * max(Tplus, Tminus)], options={"xatol": 1e-6},')
trial("BFGS options eps/gtol in findLocalMinimum", "effectivePotential.py", "res = scipy.optimize.minimize(evaluateWrapper, guess, tol=tol)", 'res = scipy.optimize.minimize(evaluateWrapper, guess, tol=tol, options={"eps": 1e-6, "gtol": 1e-6})')
trial("RK45 max_step absolute", "freeEnergy.py", '"max_step": dT,', '"max_step": 0.01,')
trial("RK45 atol literal in dict", "freeEnergy.py", '"atol": tolAbsolute,', '"atol": 1e-8,')
trial("guard |det Hessian| < 1e-6 (untyped name)", "freeEnergy.py", "return np.asarray(scipylinalg.solve(hess, -dgraddT", "assert abs(np.linalg.det(hess)) > 1e-6\n            return np.asarray(scipylinalg.solve(hess, -dgraddT")
trial("guard ode.step_size < 1e-10 (absolute)", "freeEnergy.py", "if ode.step_size < 1e-16 * T0 or", "if ode.step_size < 1e-10 or")
trial("dT floor: dT = max(dT, 1e-3) in manager", "manager.py", "        TMinHighT = Tn * self.config.configThermodynamics.tmin", "        dT = max(dT, 1e-3)\n        TMinHighT = Tn * self.config.configThermodynamics.tmin")
trial("tailLength lost /Tnucl", "manager.py", ") / Tnucl\n\n        if gridN", ")\n\n        if gridN")
trial("initialWallThickness lost /Tnucl (WallSolver arg)", "manager.py", "boltzmannSolver, wallThickness / Tnucl)", "boltzmannSolver, wallThickness)")
trial("derivT: scale argument dropped", "effectivePotential.py", "            scale=self.derivativeSettings.temperatureVariationScale,\n            bounds=(0,np.inf),", "            bounds=(0,np.inf),")
trial("validatePhaseInput atol 1e-5 -> 1e-3", "manager.py", "rtol=1e-05, atol=1e-05", "rtol=1e-05, atol=1e-03")
trial("solveWallDetonation uses settings guess (no /Tn)", "manager.py", "            vmax,\n            solver.initialWallThickness,", "            vmax,\n            wallSolverSettings.wallThicknessGuess,")
