"""Non-polynomial (log) one-field model, homogeneous under a change of units when T0, mu scale like the unit."""
import math, logging, sys, time
import numpy as np
import WallGo
from WallGo import Fields, GenericModel, Particle

SPEC = dict(D=0.2, E=0.12, lam=0.1, T0=1.0, g=100.0, kappa=0.02, mu=4.5, Tn=1.8,
            dTscale=0.02, phiscale=1.0, ph2=3.5)

class Setup:
    def __init__(self, spec=SPEC):
        self.spec = spec
        q = self.q = {}
        class Pot(WallGo.EffectivePotential):
            fieldCount = 1
            effectivePotentialError = 1e-15
            def evaluate(self, fields, temperature):
                phi = Fields(fields).getField(0)
                T = np.asarray(temperature)
                return (q["D"] * (T ** 2 - q["T0"] ** 2) * phi ** 2 - q["E"] * T * phi ** 3
                        + q["lam"] / 4 * phi ** 4 - q["g"] * math.pi ** 2 / 90 * T ** 4
                        + q["kappa"] * phi ** 4 * np.log((phi ** 2 + T ** 2) / q["mu"] ** 2))
        self.pot = Pot()
        pot = self.pot
        class Model(GenericModel):
            def __init__(self):
                self.effectivePotential = pot
                self.clearParticles()
                self.addParticle(Particle("top", index=1, msqVacuum=lambda f: 0.25 * f.getField(0) ** 2,
                                          msqDerivative=lambda f: 0.5 * f.getField(0),
                                          statistics="Fermion", totalDOFs=12))
            @property
            def fieldCount(self): return 1
            def getEffectivePotential(self): return self.effectivePotential
        self.model = Model()
        self.manager = None

    def setup(self, u, reuse_manager=False):
        s = self.spec
        self.q.update(D=s["D"], E=s["E"], lam=s["lam"], g=s["g"], kappa=s["kappa"],
                      T0=s["T0"] * u, mu=s["mu"] * u)
        if not (reuse_manager and self.manager is not None):
            m = WallGo.WallGoManager()
            m.setVerbosity(logging.ERROR)
            m.config.configGrid.spatialGridSize = 20
            m.config.configEOM.maxIterations = 25
            m.registerModel(self.model)
            self.manager = m
        m = self.manager
        m.setupThermodynamicsHydrodynamics(
            WallGo.PhaseInfo(temperature=s["Tn"] * u, phaseLocation1=Fields([0.0]),
                             phaseLocation2=Fields([s["ph2"] * u])),
            WallGo.VeffDerivativeSettings(temperatureVariationScale=s["dTscale"] * u,
                                          fieldValueVariationScale=[s["phiscale"] * u]))
        return m

def run(u, history=(), wall=True, spec=SPEC, reuse_manager=False):
    st = Setup(spec)
    for h in history:
        st.setup(h, reuse_manager)
    m = st.setup(u, reuse_manager)
    Tn = spec["Tn"] * u
    out = dict(u=u, alphaN=float(m.hydrodynamics.template.alN), vJ=float(m.hydrodynamics.vJ),
               TmaxLow=float(m.thermodynamics.freeEnergyLow.maxPossibleTemperature[0]) / Tn)
    if wall:
        out["vwLTE"] = float(m.wallSpeedLTE())
        res = m.solveWall(WallGo.WallSolverSettings(bIncludeOffEquilibrium=False, meanFreePathScale=50.0,
                                                    wallThicknessGuess=5.0))
        out.update(vw=None if res.wallVelocity is None else float(res.wallVelocity),
                   widthTn=float(res.wallWidths[0]) * Tn, success=bool(res.success),
                   TplusTn=float(res.temperaturePlus) / Tn)
    return out

if __name__ == "__main__":
    t = time.time()
    u = float(sys.argv[1]) if len(sys.argv) > 1 else 1.0
    hist = tuple(float(x) for x in sys.argv[2:])
    print(run(u, hist), "%.0fs" % (time.time() - t))
