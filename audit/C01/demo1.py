"""C01 demo 1: the result must be a function of the model and the settings only.

One manager: solve with errTol=1e-2, then configure errTol=1e-6 on the SAME manager
(manager.config.configEOM.errTol, the documented way) and solve again.  The second answer must
(a) be the answer of a fresh manager configured with errTol=1e-6 from the start, and
(b) have been found by a root finder run with the configured tolerance (xtol = 1e-6) and report
    wallVelocityError = errTol * vw for the configured errTol.
Exit 0 if the property holds, 1 if it is broken.

Run:  PYTHONPATH=<tree>/src /venv/bin/python demo1.py
"""
import logging
import math
import sys
import warnings

warnings.filterwarnings("ignore")
import numpy as np
import scipy.optimize
import WallGo
from WallGo import EffectivePotential, Fields, GenericModel

P = dict(D=0.2, E=0.05, lam=0.1, T0=80.0, g=100.0)
TN = 83.0


class QPot(EffectivePotential):
    fieldCount = 1
    effectivePotentialError = 1e-15

    def __init__(self, owner):
        super().__init__()
        self.owner = owner

    def evaluate(self, fields, temperature):
        p = self.owner.modelParameters
        phi = Fields(fields).getField(0)
        T = np.asarray(temperature)
        return (p["D"] * (T ** 2 - p["T0"] ** 2) * phi ** 2 - p["E"] * T * phi ** 3
                + p["lam"] / 4 * phi ** 4 - p["g"] * math.pi ** 2 / 90 * T ** 4)


class QModel(GenericModel):
    def __init__(self, params):
        self.modelParameters = dict(params)
        self.potential = QPot(self)

    @property
    def fieldCount(self):
        return 1

    def getEffectivePotential(self):
        return self.potential


def manager(errTol):
    m = WallGo.WallGoManager()
    m.setVerbosity(logging.ERROR)
    m.config.configGrid.spatialGridSize = 20
    m.config.configEOM.errTol = errTol
    m.registerModel(QModel(P))
    disc = 9 * P["E"] ** 2 * TN ** 2 - 8 * P["lam"] * P["D"] * (TN ** 2 - P["T0"] ** 2)
    phi = (3 * P["E"] * TN + math.sqrt(disc)) / (2 * P["lam"])
    m.setupThermodynamicsHydrodynamics(
        WallGo.PhaseInfo(temperature=TN, phaseLocation1=Fields([0.0]),
                         phaseLocation2=Fields([phi])),
        WallGo.VeffDerivativeSettings(temperatureVariationScale=2.0,
                                      fieldValueVariationScale=[50.0]))
    return m


S = WallGo.WallSolverSettings(bIncludeOffEquilibrium=False, meanFreePathScale=50.0,
                              wallThicknessGuess=5.0)

xtols = []
orig = scipy.optimize.root_scalar


def spy(f, *a, **kw):
    if "xtol" in kw and kw.get("method") == "brentq" and f.__name__ == "pressureWrapper":
        xtols.append(kw["xtol"])
    return orig(f, *a, **kw)


scipy.optimize.root_scalar = spy

m = manager(1e-2)
r1 = m.solveWall(S)
m.config.configEOM.errTol = 1e-6          # new setting on the same manager
r2 = m.solveWall(S)
r3 = manager(1e-6).solveWall(S)           # the same setting on a manager without history
print("first solve   (errTol=1e-2):            vw = %r" % r1.wallVelocity)
print("second solve  (errTol=1e-6, same mgr):  vw = %r  error = %r  success=%s" % (
    r2.wallVelocity, r2.wallVelocityError, r2.success))
print("fresh manager (errTol=1e-6):            vw = %r  error = %r  success=%s" % (
    r3.wallVelocity, r3.wallVelocityError, r3.success))
print("xtol handed to brentq in the three runs:", xtols)

bad = []
if r2.wallVelocity != r3.wallVelocity or r2.wallVelocityError != r3.wallVelocityError:
    bad.append("result depends on the call history (earlier solve with another errTol)")
if r2.success and xtols[1] != 1e-6:
    bad.append("success reported, but the root was bracketed to %g, not to the configured 1e-6"
               % xtols[1])
if r2.success and abs(r2.wallVelocity - r3.wallVelocity) > 2e-6:
    bad.append("reported velocity is %.3g away from the root located with the configured "
               "tolerance" % abs(r2.wallVelocity - r3.wallVelocity))
for b in bad:
    print("BROKEN:", b)
sys.exit(1 if bad else 0)
