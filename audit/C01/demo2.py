"""C01 demo 2: success => the pressure changes sign within the configured tolerance of the
reported velocity, and what is returned belongs to a CONVERGED pressure evaluation.

Settings: configEOM.maxIterations = 3 (too few for the inner pressure iteration at this point),
errTol = 1e-5.  The unchanged solver notices that wallPressure did not converge and labels the run
ERROR.  If it reports success instead, the demo evaluates the converged pressure (a fresh EOM with
maxIterations = 50 built by a second manager) at vw -+ 2 errTol.
Exit 0 if the property holds (error labelled, or success with a genuine sign change), 1 otherwise.

Run:  PYTHONPATH=<tree>/src /venv/bin/python demo2.py
"""
import logging
import math
import sys
import warnings

warnings.filterwarnings("ignore")
import numpy as np
import WallGo
from WallGo import EffectivePotential, Fields, GenericModel
from WallGo.containers import WallParams

P = dict(D=0.2, E=0.05, lam=0.1, T0=80.0, g=100.0)
TN = 83.0
ERRTOL = 1e-5


class QPot(EffectivePotential):
    fieldCount = 1
    effectivePotentialError = 1e-15

    def __init__(self, owner):
        super().__init__()
        self.owner = owner

    def evaluate(self, fields, temperature):
        p = self.owner.modelParameters
        phi = Fields(fields).getField(0)
        T = np.asarray(temperature)
        return (p["D"] * (T ** 2 - p["T0"] ** 2) * phi ** 2 - p["E"] * T * phi ** 3
                + p["lam"] / 4 * phi ** 4 - p["g"] * math.pi ** 2 / 90 * T ** 4)


class QModel(GenericModel):
    def __init__(self, params):
        self.modelParameters = dict(params)
        self.potential = QPot(self)

    @property
    def fieldCount(self):
        return 1

    def getEffectivePotential(self):
        return self.potential


def manager(maxIterations):
    m = WallGo.WallGoManager()
    m.setVerbosity(logging.CRITICAL)
    m.config.configGrid.spatialGridSize = 20
    m.config.configEOM.errTol = ERRTOL
    m.config.configEOM.maxIterations = maxIterations
    m.registerModel(QModel(P))
    disc = 9 * P["E"] ** 2 * TN ** 2 - 8 * P["lam"] * P["D"] * (TN ** 2 - P["T0"] ** 2)
    phi = (3 * P["E"] * TN + math.sqrt(disc)) / (2 * P["lam"])
    m.setupThermodynamicsHydrodynamics(
        WallGo.PhaseInfo(temperature=TN, phaseLocation1=Fields([0.0]),
                         phaseLocation2=Fields([phi])),
        WallGo.VeffDerivativeSettings(temperatureVariationScale=2.0,
                                      fieldValueVariationScale=[50.0]))
    return m


S = WallGo.WallSolverSettings(bIncludeOffEquilibrium=False, meanFreePathScale=50.0,
                              wallThicknessGuess=5.0)

r = manager(3).solveWall(S)
print("maxIterations=3: success=%s type=%s vw=%r\n  message: %s" % (
    r.success, r.solutionType.name, r.wallVelocity, r.message))
if (r.solutionType.name == "ERROR") != (not r.success):
    print("BROKEN: success flag and ERROR label disagree")
    sys.exit(1)
if not (r.success and r.wallVelocity is not None):
    print("run labelled as an error: nothing is claimed about the velocity -> property holds")
    sys.exit(0)

ref = manager(50).setupWallSolver(S).eom      # converged pressures
vw = float(r.wallVelocity)
ps = {}
for k in (-2, 0, 2):
    g = WallParams(widths=np.array(r.wallWidths, dtype=float).copy(),
                   offsets=np.array(r.wallOffsets, dtype=float).copy())
    out = ref.wallPressure(vw + k * ERRTOL, g, atol=1e-10, rtol=1e-6)
    ps[k] = float(out[0])
    print("converged P(vw %+d errTol) = %.6g   widths %s   converged flag %s" % (
        k, ps[k], [float(x) for x in out[1].widths], ref.successWallPressure))
print("widths returned with the result:", [float(x) for x in r.wallWidths])
if not (ps[-2] < 0 < ps[2]):
    print("BROKEN: success reported at vw=%r but the converged pressure does not change sign "
          "within 2*errTol=%g of it (P = %.6g / %.6g)" % (vw, 2 * ERRTOL, ps[-2], ps[2]))
    sys.exit(1)
sys.exit(0)
