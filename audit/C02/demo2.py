"""C02 demo 2: the boundary constants handed to the wall equations for a detonation just above
the Jouguet velocity, asked for right after a hybrid just below it ON THE SAME OBJECT (what the
wall solver does when it scans across vJ).  For a detonation the fluid in front of the wall is
at rest at Tn: c1 = -w(Tn) g(vw)^2 vw, c2 = p(Tn) + w(Tn) g^2 vw^2, and both must equal the
fluxes of the matching for vw (computed on a fresh object) on either side.  exit 0 = they do, exit 1 = they do not."""
import sys, logging, warnings
warnings.filterwarnings("ignore"); logging.disable(logging.CRITICAL)
import WallGo
from WallGo.helpers import gammaSq
from tests.test_Hydrodynamics import TestModel2Step, TestModelBag

bad = 0
for th in (TestModel2Step(0.2, 0.1, 0.4, 0.8), TestModelBag(0.9, 0.7)):
    h = WallGo.Hydrodynamics(th, 10, 0.01, 1e-6, 1e-10)
    vJ = h.vJ
    below, above = vJ * (1 - 3e-6), vJ * (1 + 3e-6)
    h.findHydroBoundaries(below)                       # hybrid
    c1, c2, Tp, Tm, vmid = (float(x) for x in h.findHydroBoundaries(above))   # detonation
    ref = WallGo.Hydrodynamics(th, 10, 0.01, 1e-6, 1e-10)        # never used before
    vp, vm, Tp_, Tm_ = (float(x) for x in ref.findMatching(above))
    wp, wm = float(th.wHighT(Tp_)), float(th.wLowT(Tm_))
    e1, e2 = wp * gammaSq(vp) * vp, wm * gammaSq(vm) * vm
    m1, m2 = e1 * vp + float(th.pHighT(Tp_)), e2 * vm + float(th.pLowT(Tm_))
    fresh = ref.findHydroBoundaries(above)
    print("%s vJ=%.9f vw=%.9f: matching vp=%.6g vm=%.6g Tp=%.6g Tm=%.6g" % (
        type(th).__name__, vJ, above, vp, vm, Tp_, Tm_))
    print("   energy flux %.9g | %.9g   momentum flux %.9g | %.9g" % (e1, e2, m1, m2))
    print("   handed to the wall equations: -c1=%.9g c2=%.9g Tp=%.6g Tm=%.6g (fresh object: "
          "-c1=%.9g c2=%.9g)" % (-c1, c2, Tp, Tm, -fresh[0], fresh[1]))
    tol = 1e-4
    if abs(c1 + e1) > tol * e1 or abs(c1 + e2) > tol * e1 or abs(c2 - m1) > tol * abs(m1) \
            or abs(c2 - m2) > tol * abs(m1) or abs(Tp - th.Tnucl) > tol * th.Tnucl:
        bad += 1
print("VIOLATED on %d inputs" % bad if bad else "boundary constants equal the fluxes")
sys.exit(1 if bad else 0)
