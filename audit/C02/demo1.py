"""C02 demo 1: energy/momentum flux across the wall for a slow, strongly heated deflagration.
exit 0 = both fluxes agree (property holds on these inputs), exit 1 = they do not.
Run: PYTHONPATH=<tree>/src:<tree> python demo1.py"""
import sys, logging, warnings
warnings.filterwarnings("ignore"); logging.disable(logging.CRITICAL)
import WallGo
from WallGo.helpers import gammaSq
from tests.test_Hydrodynamics import TestModel2Step, TestModelBag

CASES = [(TestModel2Step(0.221, 0.103, 0.414, 0.739), 0.009878406523797258),
         (TestModel2Step(0.172, 0.113, 0.384, 0.539), 0.0498686779588869),
         (TestModelBag(0.655, 0.714), 0.2846918818211168)]
bad = 0
for th, vw in CASES:
    h = WallGo.Hydrodynamics(th, 10, 0.01, 1e-6, 1e-6)
    vp, vm, Tp, Tm = (float(x) for x in h.findMatching(vw))
    c1, c2 = (float(x) for x in h.findHydroBoundaries(vw)[:2])
    wp, wm = float(th.wHighT(Tp)), float(th.wLowT(Tm))
    e1, e2 = wp * gammaSq(vp) * vp, wm * gammaSq(vm) * vm
    m1, m2 = e1 * vp + float(th.pHighT(Tp)), e2 * vm + float(th.pLowT(Tm))
    re, rm = abs(e1 - e2) / max(e1, e2), abs(m1 - m2) / max(abs(m1), abs(m2))
    tol = 15 * 2e-6 / ((1 - vp * vp) * (1 - vm * vm))
    print("%s vw=%.6g -> vp=%.6g vm=%.6g Tp=%.6g Tm=%.6g success=%s" % (
        type(th).__name__, vw, vp, vm, Tp, Tm, h.success))
    print("   energy flux %.9g | %.9g (rel %.2g)  momentum flux %.9g | %.9g (rel %.2g)  -c1=%.9g"
          % (e1, e2, re, m1, m2, rm, -c1))
    if re > tol or rm > tol or abs(c1 + e2) > 2 * tol * e1:
        bad += 1
print("VIOLATED on %d of %d inputs" % (bad, len(CASES)) if bad else "conserved on all inputs")
sys.exit(1 if bad else 0)
