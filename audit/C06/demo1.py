"""C06 audit, change 1: Jouguet velocity for a strong transition whose low-T phase is tabulated
only up to Tc (the usual situation after phase tracing).  Bag equation of state psi=0.3,
Tn=0.7 Tc (alpha_n ~ 0.97): the Chapman-Jouguet temperature is 2.29 Tn > max(2 Tn, TMaxLowT),
so findJouguetVelocity has to grow its bracket.  Exit 0 if the advertised vJ is the
Chapman-Jouguet point, 1 otherwise.
Run: PYTHONPATH=<tree>/src:<tree> python demo1.py"""
import sys, os, warnings
warnings.filterwarnings("ignore")
import numpy as np
import WallGo
root = os.path.dirname(os.path.dirname(os.path.dirname(os.path.abspath(WallGo.__file__))))
sys.path.insert(0, os.path.join(root, "tests"))
from test_Hydrodynamics import TestModelBag, FreeEnergyHack

model = TestModelBag(0.3, 0.7)
# low-T phase traced up to the critical temperature Tc = 1 (a genuine end of the table)
model.freeEnergyLow = FreeEnergyHack(minPossibleTemperature=[0.1, False],
                                     maxPossibleTemperature=[1.0, False])
model.TMaxLowT = 500.0   # (thermodynamic functions themselves stay analytic)
h = WallGo.Hydrodynamics(model, 10, 0.01, 1e-8, 1e-8)
Tn = model.Tnucl
pH, eH = model.pHighT(Tn), model.eHighT(Tn)


def residual(vw, tm):          # the detonation matching equation with v+ = vw, T+ = Tn
    pL, eL = model.pLowT(tm), model.eLowT(tm)
    return vw ** 2 * (eH - eL) - (pH - pL) * (eL + pH) / (eH + pL)


ts = np.linspace(Tn, 6 * Tn, 4000)
below = min(residual(h.vJ * (1 - 2e-3), t) for t in ts)
above = min(residual(h.vJ * (1 + 2e-3), t) for t in ts)
print("advertised vJ = %.6f (template closed form %.6f)" % (h.vJ, h.template.vJ))
print("min_T- residual at 0.998 vJ: %.3e (must be > 0: no detonation below vJ)" % below)
print("min_T- residual at 1.002 vJ: %.3e (must be < 0: detonations exist above vJ)" % above)
bad = not (below > 0 > above)
try:
    vp, vm, Tp, Tm = h.findMatching(h.vJ * (1 + 1e-6))
    cs = float(np.sqrt(model.csqLowT(Tm)))
    print("detonation just above vJ: v+=%.6f v-=%.6f cs(T-)=%.6f T-=%.5f" % (vp, vm, cs, Tm))
    bad = bad or abs(vm - cs) > 5e-3
except Exception as ex:
    print("findMatching just above the advertised vJ raised:", repr(ex)[:160])
    bad = True
try:
    vp, vm, Tp, Tm = h.findMatching(0.5 * (h.vJ + h.template.vJ) if abs(h.vJ - h.template.vJ) > 1e-3 else 0.9)
    print("matching at vw between: v+=%s v-=%s T+=%s T-=%s" % (vp, vm, Tp, Tm))
except Exception as ex:
    print("findMatching raised:", repr(ex)[:160])
print("PROPERTY BROKEN" if bad else "ok")
sys.exit(1 if bad else 0)
