"""C06 audit, change 2: doesPhaseTraceLimitvmax of a FRESH Hydrodynamics object.
Two-step toy model, Tn = 0.7.  Object A: the low-T table ends at 0.75 (not a genuine end of
the phase) inside the deflagration/hybrid window, so fastestDeflag() < vJ and flag [1] is
raised -- correct.  Then two unrelated fresh objects:
  B: ample tables -> fastestDeflag() = vJ and both flags must be False;
  C: the low-T phase GENUINELY ends at 0.75 (maxPossibleTemperature[1] = True) -> the window
     is cut, but flag [1] must stay False (the limit is physics, not the tracing range).
Exit 0 if B and C report [False, False], 1 otherwise.
Run: PYTHONPATH=<tree>/src:<tree> python demo2.py"""
import sys, os, warnings
warnings.filterwarnings("ignore")
import WallGo
root = os.path.dirname(os.path.dirname(os.path.dirname(os.path.abspath(WallGo.__file__))))
sys.path.insert(0, os.path.join(root, "tests"))
from test_Hydrodynamics import TestModel2Step, FreeEnergyHack


def hydro(TMaxLow, genuineEnd):
    model = TestModel2Step(0.2, 0.1, 0.4, 0.7)
    model.freeEnergyLow = FreeEnergyHack(minPossibleTemperature=[0.01, False],
                                         maxPossibleTemperature=[TMaxLow, genuineEnd])
    return WallGo.Hydrodynamics(model, 10, 0.01, 1e-8, 1e-8)


bad = False
a = hydro(0.75, False)
va = a.fastestDeflag()
print("A (table ends at 0.75, tracing limit): fastestDeflag=%.6f vJ=%.6f flags=%s" % (
    va, a.vJ, a.doesPhaseTraceLimitvmax))
b = hydro(5.0, False)
print("B fresh, before any call: flags=%s" % b.doesPhaseTraceLimitvmax)
vb = b.fastestDeflag()
print("B (ample tables): fastestDeflag=%.6f vJ=%.6f flags=%s" % (vb, b.vJ,
                                                                b.doesPhaseTraceLimitvmax))
if vb != b.vJ or any(b.doesPhaseTraceLimitvmax):
    print("  -> B reports that the phase tracing limits vmax although nothing limits it")
    bad = True
c = hydro(0.75, True)
vc = c.fastestDeflag()
print("C (phase genuinely ends at 0.75): fastestDeflag=%.6f vJ=%.6f flags=%s" % (
    vc, c.vJ, c.doesPhaseTraceLimitvmax))
if any(c.doesPhaseTraceLimitvmax):
    print("  -> C blames the tracing range for a genuine end of the phase")
    bad = True
print("PROPERTY BROKEN" if bad else "ok")
sys.exit(1 if bad else 0)
