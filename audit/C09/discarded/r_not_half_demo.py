"""C09 demo 2: the spatial grid is configured with ratioPointsWall = 0.7 (70% of the points in
the wall; a documented constructor argument / configuration entry, default 0.5).  Uniform
plasma, no out-of-equilibrium particle, 1-field quartic potential, M=100, equal tails.  The
pressure must be V(low) - V(high).  Exit 0 if it is (rel. diff < 1e-6), 1 otherwise.
Run: PYTHONPATH=<tree>/src python demo2.py"""

import math
import sys
import types
import warnings

import numpy as np

warnings.filterwarnings("ignore")
from WallGo.containers import BoltzmannDeltas, WallParams  # noqa: E402
from WallGo.effectivePotential import EffectivePotential, VeffDerivativeSettings  # noqa: E402
from WallGo.equationOfMotion import EOM  # noqa: E402
from WallGo.fields import Fields  # noqa: E402
from WallGo.grid3Scales import Grid3Scales  # noqa: E402
from WallGo.particle import Particle  # noqa: E402
from WallGo.polynomial import Polynomial  # noqa: E402
from WallGo.results import BoltzmannResults  # noqa: E402

TN, M, RATIO = 100.0, 100, 0.7
D, E, LAM, T0, G = 0.2, 0.05, 0.1, 97.0, 100.0


class Quartic(EffectivePotential):
    fieldCount = 1
    effectivePotentialError = 1e-15

    def evaluate(self, fields, temperature):
        phi = Fields(fields).getField(0)
        T = np.asarray(temperature)
        return (D * (T ** 2 - T0 ** 2) * phi ** 2 - E * T * phi ** 3 + LAM / 4 * phi ** 4
                - G * math.pi ** 2 / 90 * T ** 4)


veff = Quartic()
veff.configureDerivatives(VeffDerivativeSettings(temperatureVariationScale=10.0,
                                                 fieldValueVariationScale=[50.0]))
disc = 9 * E ** 2 * TN ** 2 - 8 * LAM * D * (TN ** 2 - T0 ** 2)
lo, hi = Fields([(3 * E * TN + math.sqrt(disc)) / (2 * LAM)]), Fields([0.0])

top = Particle("top", index=0,
               msqVacuum=lambda f: 0.5 * Fields(f).getField(0) ** 2,
               msqDerivative=lambda f: np.transpose([Fields(f).getField(0)]),
               statistics="Fermion", totalDOFs=12)


def results(grid, amplitude):
    n = grid.M - 1
    chi = np.asarray(grid.chiValues)
    d00 = amplitude * TN ** 2 * np.exp(-(chi / 0.3) ** 2)[None, :]
    poly = lambda c: Polynomial(c, grid, direction=("Array", "z"),  # noqa: E731
                                basis=("Array", "Cardinal"))
    deltas = BoltzmannDeltas(Delta00=poly(d00), Delta02=poly(0 * d00), Delta20=poly(0 * d00),
                             Delta11=poly(0 * d00))
    return BoltzmannResults(deltaF=np.zeros((1, n, grid.N - 1, grid.N - 1)), Deltas=deltas,
                            truncationError=0.0, linearizationCriterion1=np.zeros(1),
                            linearizationCriterion2=np.zeros(1))


class Solver:
    """stands for BoltzmannSolver: what it WOULD return if it were asked to solve"""

    def __init__(self, grid):
        self.grid, self.offEqParticles = grid, []

    def setBackground(self, background):
        self.background = background

    def getDeltas(self):
        return results(self.grid, 1e-2)


grid = Grid3Scales(M, 5, 10.0 / TN, 10.0 / TN, 5.0 / TN, TN, RATIO, 0.1)
eom = EOM.__new__(EOM)           # same attributes as EOM.__init__ sets
eom.grid, eom.nbrFields, eom.meanFreePathScale = grid, 1, 100.0 / TN
eom.wallThicknessBounds, eom.wallOffsetBounds = (0.1, 100.0), (-10.0, 10.0)
eom.includeOffEq = False
eom.forceEnergyConservation = False
eom.thermo = types.SimpleNamespace(effectivePotential=veff, Tnucl=TN)
eom.boltzmannSolver = Solver(grid)
eom.particles = eom.boltzmannSolver.offEqParticles

vMid, n = 0.5, M - 1
wp = WallParams(widths=np.array([5.0 / TN]), offsets=np.array([0.0]))
eom._updateGrid(wp, vMid)        # as EOM.wallPressure does
p, wpo, _, _ = eom._intermediatePressureResults(
    wp, lo, hi, 0.0, 0.0, vMid, results(grid, 0.0), TN, TN,
    temperatureProfileInput=TN * np.ones(n), velocityProfileInput=vMid * np.ones(n))
dV = float(np.ravel(veff.evaluate(lo, TN))[0] - np.ravel(veff.evaluate(hi, TN))[0])
rel = abs(float(p) - dV) / abs(dV)
print("pressure %.8e  V(low)-V(high) %.8e  rel.diff %.2e" % (float(p), dV, rel))
sys.exit(0 if rel < 1e-6 else 1)
