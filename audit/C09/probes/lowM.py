import sys, random, math
sys.path[:0] = ["/verif/tools", "/verif/tools/props"]
import warnings; warnings.filterwarnings("ignore")
import C09 as H
rng = random.Random(5)
rows = []
for M in (40, 44, 50, 60, 80):
    for offEq in (True, False):
        worst = (0, None)
        for _ in range(40):
            c = H.gen_case(rng, [M]); c["offEq"] = offEq
            r = H.run_case(c)
            if r["rel"] > worst[0]:
                worst = (r["rel"], r["tol"], c["kind"], c["mode"], c["vMid"], round(r["R"],1))
        print(M, offEq, worst)
