import sys, math, types
sys.path[:0] = ["/verif/tools", "/verif/tools/props"]
import warnings; warnings.filterwarnings("ignore")
import numpy as np
import C09 as H
from WallGo.containers import WallParams
from WallGo.grid3Scales import Grid3Scales
from WallGo.fields import Fields

def run(TN=100.0, M=80, offEq=False, vMid=0.5, widthsT=(5.0,), offsets=(0.0,), ratio=0.5, smooth=0.1, intw=False, mult=0.0, mfpT=100.0):
    H.TN = TN
    s = TN/100.0
    par = dict(D=0.2, E=0.05, lam=0.1, T0=97.0*s, g=100.0)
    veff = H.make_potential("quartic1", par)
    veff.configureDerivatives(__import__("WallGo").effectivePotential.VeffDerivativeSettings(temperatureVariationScale=10.0*s, fieldValueVariationScale=[50.0*s]))
    lo, hi = veff.minima(TN)
    eom = H.make_eom(veff, M, offEq, 1)
    eom.grid = Grid3Scales(M, 5, 40.0/TN, 40.0/TN, 5.0/TN, TN, ratio, smooth); eom.boltzmannSolver.grid = eom.grid
    eom.meanFreePathScale = mfpT/TN
    n = M-1
    w = np.array(widthsT)/TN if not intw else np.array(widthsT, dtype=int)
    wp = WallParams(widths=w, offsets=np.array(offsets))
    eom._updateGrid(wp, vMid)
    p, wpo, _, _ = eom._intermediatePressureResults(wp, lo, hi, 0., 0., vMid, H.zero_boltzmann(eom.grid), TN, TN,
        temperatureProfileInput=TN*np.ones(n), velocityProfileInput=vMid*np.ones(n), multiplier=mult)
    dV = float(np.ravel(veff.evaluate(lo, TN))[0]-np.ravel(veff.evaluate(hi, TN))[0])
    return abs(p-dV)/abs(dV)

for r in (0.3, 0.7):
    print("ratio", r, run(ratio=r), "offEq", run(ratio=r, offEq=True, M=120))
for sm in (0.03, 0.3):
    print("smoothing", sm, run(smooth=sm), "offEq", run(smooth=sm, offEq=True, M=120))
print("wide wall 50/T", run(widthsT=(50.0,)), " thin 0.5/T", run(widthsT=(0.5,)), " mfp 1000/T offEq M=120", run(mfpT=1000.0, offEq=True, M=120), " M=1000", run(M=1000))
