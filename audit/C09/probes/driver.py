import sys, random, math
sys.path[:0] = ["/verif/tools", "/verif/tools/props"]
import warnings; warnings.filterwarnings("ignore")
import numpy as np
import C09 as H
from WallGo.containers import WallParams
TN = H.TN
rng = random.Random(1)
for M in (40, 60, 100):
  for offEq in (False, True):
    for fac in (1/3, 1.0, 3.0):
        c = H.gen_case(rng, [M])
        while c["kind"] != "quartic1": c = H.gen_case(rng, [M])
        veff = H.make_potential(c["kind"], c["params"]); lo, hi = veff.minima(TN)
        eom = H.make_eom(veff, M, offEq, 1); n = M-1; vMid = 0.6
        T = TN*np.ones(n)
        def step(wp, mult):
            return eom._intermediatePressureResults(wp, lo, hi, 0., 0., vMid, H.zero_boltzmann(eom.grid), TN, TN,
                 temperatureProfileInput=T, velocityProfileInput=vMid*np.ones(n), multiplier=mult)
        # find the minimum first (on re-mapped grids) to know the target width
        wp = WallParams(widths=np.array([5.0/TN]), offsets=np.array([0.0]))
        eom._updateGrid(wp, vMid)
        for _ in range(3):
            _, wp, _, _ = step(wp, 1.0); eom._updateGrid(wp, vMid)
        wmin = wp.widths[0]
        # now the real driver sequence: grid mapped to the GUESS, wall moves to the minimum
        eom = H.make_eom(veff, M, offEq, 1)
        guess = WallParams(widths=np.array([wmin*fac]), offsets=np.array([0.0]))
        eom._updateGrid(guess, vMid)
        p, wpo, _, _ = step(guess, 1.0)
        dV = float(np.ravel(veff.evaluate(lo, TN))[0]-np.ravel(veff.evaluate(hi, TN))[0])
        print(M, offEq, "guess/min=%.2f"%fac, "returned/min=%.3f"%(wpo.widths[0]/wmin), "rel err %.2e"%(abs(p-dV)/abs(dV)))
