"""C09 demo 2: the sequence of EOM.wallPressure on a uniform plasma without out-of-equilibrium
particles: the grid is mapped to the wall GUESS (_updateGrid), then one step of
_intermediatePressureResults relaxes the wall (multiplier 1) and returns the pressure.  The
guess is 1.5 x the width that minimises the action, 1-field quartic potential, M=80.  The
pressure must be V(low) - V(high).  Exit 0 if it is (rel. diff < 1e-5), 1 otherwise.
Run: PYTHONPATH=<tree>/src python demo2.py"""

import math
import sys
import types
import warnings

import numpy as np

warnings.filterwarnings("ignore")
from WallGo.containers import BoltzmannDeltas, WallParams  # noqa: E402
from WallGo.effectivePotential import EffectivePotential, VeffDerivativeSettings  # noqa: E402
from WallGo.equationOfMotion import EOM  # noqa: E402
from WallGo.fields import Fields  # noqa: E402
from WallGo.grid3Scales import Grid3Scales  # noqa: E402
from WallGo.particle import Particle  # noqa: E402
from WallGo.polynomial import Polynomial  # noqa: E402
from WallGo.results import BoltzmannResults  # noqa: E402

TN, M = 100.0, 80
D, E, LAM, T0, G = 0.2, 0.05, 0.1, 97.0, 100.0


class Quartic(EffectivePotential):
    fieldCount = 1
    effectivePotentialError = 1e-15

    def evaluate(self, fields, temperature):
        phi = Fields(fields).getField(0)
        T = np.asarray(temperature)
        return (D * (T ** 2 - T0 ** 2) * phi ** 2 - E * T * phi ** 3 + LAM / 4 * phi ** 4
                - G * math.pi ** 2 / 90 * T ** 4)


veff = Quartic()
veff.configureDerivatives(VeffDerivativeSettings(temperatureVariationScale=10.0,
                                                 fieldValueVariationScale=[50.0]))
disc = 9 * E ** 2 * TN ** 2 - 8 * LAM * D * (TN ** 2 - T0 ** 2)
lo, hi = Fields([(3 * E * TN + math.sqrt(disc)) / (2 * LAM)]), Fields([0.0])

def results(grid, amplitude):
    n = grid.M - 1
    chi = np.asarray(grid.chiValues)
    d00 = np.zeros((0, n)) * amplitude
    poly = lambda c: Polynomial(c, grid, direction=("Array", "z"),  # noqa: E731
                                basis=("Array", "Cardinal"))
    deltas = BoltzmannDeltas(Delta00=poly(d00), Delta02=poly(0 * d00), Delta20=poly(0 * d00),
                             Delta11=poly(0 * d00))
    return BoltzmannResults(deltaF=np.zeros((0, n, grid.N - 1, grid.N - 1)), Deltas=deltas,
                            truncationError=0.0, linearizationCriterion1=np.zeros(0),
                            linearizationCriterion2=np.zeros(0))


class Solver:
    """stands for BoltzmannSolver: what it WOULD return if it were asked to solve"""

    def __init__(self, grid):
        self.grid, self.offEqParticles = grid, []

    def setBackground(self, background):
        self.background = background

    def getDeltas(self):
        return results(self.grid, 0.0)


grid = Grid3Scales(M, 5, 10.0 / TN, 10.0 / TN, 5.0 / TN, TN, 0.5, 0.1)
eom = EOM.__new__(EOM)           # same attributes as EOM.__init__ sets
eom.grid, eom.nbrFields, eom.meanFreePathScale = grid, 1, 100.0 / TN
eom.wallThicknessBounds, eom.wallOffsetBounds = (0.1, 100.0), (-10.0, 10.0)
eom.includeOffEq = False
eom.forceEnergyConservation = False
eom.thermo = types.SimpleNamespace(effectivePotential=veff, Tnucl=TN)
eom.boltzmannSolver = Solver(grid)
eom.particles = eom.boltzmannSolver.offEqParticles

vMid, n = 0.5, M - 1


def step(wall):
    return eom._intermediatePressureResults(
        wall, lo, hi, 0.0, 0.0, vMid, results(eom.grid, 0.0), TN, TN,
        temperatureProfileInput=TN * np.ones(n), velocityProfileInput=vMid * np.ones(n))


# width that minimises the action (two relaxation steps, grid following the wall)
wp = WallParams(widths=np.array([5.0 / TN]), offsets=np.array([0.0]))
for _ in range(2):
    eom._updateGrid(wp, vMid)
    _, wp, _, _ = step(wp)
guess = WallParams(widths=1.5 * wp.widths, offsets=np.array([0.0]))
eom._updateGrid(guess, vMid)     # as EOM.wallPressure does
p, wpo, _, _ = step(guess)
dV = float(np.ravel(veff.evaluate(lo, TN))[0] - np.ravel(veff.evaluate(hi, TN))[0])
rel = abs(float(p) - dV) / abs(dV)
print("guess width %.4f -> returned %.4f; pressure %.8e  V(low)-V(high) %.8e  rel.diff %.2e"
      % (guess.widths[0], wpo.widths[0], float(p), dV, rel))
sys.exit(0 if rel < 1e-5 else 1)
