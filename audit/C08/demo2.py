"""C08 audit, change 2: the relabelled run is made with the SAME WallGoManager and model object.

Two-field xSM-like polynomial model (the harness' xsm2), Tn = 100, equilibrium solveWall.  As in
Models/wallGoExampleBase.py one manager is reused: the model is registered once, its field
basis is then changed in place (fields listed in the other order) and
setupThermodynamicsHydrodynamics is called again with the consistently transformed phase guesses
("You are required to run this function whenever details of your physics model change").
Exit 0 if the second run is the relabelled first run (within the check's own TOL_REPIN), else 1.
Run as: PYTHONPATH=<tree>/src /venv/bin/python -W ignore demo2.py
"""

import logging
import math
import sys

import numpy as np
import WallGo
from WallGo import EffectivePotential, Fields, GenericModel

lHH = 0.5 * 125.0 ** 2 / 246.0 ** 2
muHsq0 = -lHH * 246.0 ** 2
lHS, lSS = 0.9, 1.0
muSsq0 = 120.0 ** 2 - 0.5 * 246.0 ** 2 * lHS
g0 = 2 * 80.379 / 246.0
g1 = g0 * math.sqrt((91.1876 / 80.379) ** 2 - 1)
yt = math.sqrt(0.5) * g0 * 173.0 / 80.379
cH = (3 * g0 ** 2 + g1 ** 2 + 4 * yt ** 2 + 8 * lHH) / 16 + lHS / 24
cS = lHS / 6 + lSS / 4
TN = 100.0


def V(v, x, T):
    return (0.5 * (muHsq0 + cH * T ** 2) * v ** 2 + 0.25 * lHH * v ** 4
            + 0.5 * (muSsq0 + cS * T ** 2) * x ** 2 + 0.25 * lSS * x ** 4
            + 0.25 * lHS * v ** 2 * x ** 2 - 107.75 * math.pi ** 2 / 90 * T ** 4)


class Veff(EffectivePotential):
    fieldCount = 2
    effectivePotentialError = 1e-15
    perm = (0, 1)          # new field j = base field perm[j]

    def evaluate(self, fields, temperature):
        f = Fields(fields)
        base = [None, None]
        for j in range(2):
            base[self.perm[j]] = f.getField(j)
        return V(base[0], base[1], temperature)


class Model(GenericModel):
    def __init__(self):
        self.veff = Veff()
        self.clearParticles()

    @property
    def fieldCount(self):
        return 2

    def getEffectivePotential(self):
        return self.veff


logging.disable(logging.CRITICAL)
manager = WallGo.WallGoManager()
model = Model()
manager.registerModel(model)


def run(perm):
    model.veff.perm = tuple(perm)
    p1, p2, sc = [0.0, 110.0], [195.0, 0.0], [50.0, 30.0]
    manager.setupThermodynamicsHydrodynamics(
        WallGo.PhaseInfo(temperature=TN, phaseLocation1=Fields([p1[k] for k in perm]),
                         phaseLocation2=Fields([p2[k] for k in perm])),
        WallGo.VeffDerivativeSettings(temperatureVariationScale=1.0,
                                      fieldValueVariationScale=[sc[k] for k in perm]))
    r = manager.solveWall(WallGo.WallSolverSettings(
        bIncludeOffEquilibrium=False, meanFreePathScale=50.0, wallThicknessGuess=5.0))
    low = np.ravel(manager.thermodynamics.freeEnergyLow(TN).fieldsAtMinimum)
    return float(r.wallVelocity), np.array(r.wallWidths, float), low, bool(r.success)


A = run((0, 1))
print("first run  (h, s): vw=%.8f widths=%s low-T phase=%s" % A[:3])
try:
    B = run((1, 0))
except Exception as ex:      # pylint: disable=broad-except
    print("second run (s, h) on the same manager raised %r" % ex)
    print("PROPERTY BROKEN")
    sys.exit(1)
print("second run (s, h): vw=%.8f widths=%s low-T phase=%s" % B[:3])
bad = (not B[3]) or abs(A[0] - B[0]) > 4e-3 or \
    float(np.max(np.abs(B[1][::-1] / A[1] - 1))) > 0.03 or \
    float(np.max(np.abs(B[2][::-1] - A[2]))) > 1e-4 * 246
print("PROPERTY BROKEN" if bad else "covariant")
sys.exit(1 if bad else 0)
