"""C08 audit, change 1: translation that moves a non-zero vev onto (nearly) the origin.

Two-field xSM-like polynomial model (same as the harness' xsm2), Tn = 100, equilibrium solveWall.
Run A: base coordinates.  Run B: the SAME model with the origin of field space translated by
(-159.4, +30): the low-T Higgs vev (about 160 at T-) lands within 1 of the origin of that direction.
Pure translation, same field order: on the clean tree vw agrees to ~1e-7 and widths to ~5e-5.
Exit 0 if B is the translate of A, 1 otherwise.
Run as: PYTHONPATH=<tree>/src /venv/bin/python -W ignore demo1.py
"""
import logging
import math
import sys

import numpy as np
import WallGo
from WallGo import EffectivePotential, Fields, GenericModel

lHH = 0.5 * 125.0 ** 2 / 246.0 ** 2
muHsq0 = -lHH * 246.0 ** 2
lHS, lSS = 0.9, 1.0
muSsq0 = 120.0 ** 2 - 0.5 * 246.0 ** 2 * lHS
g0 = 2 * 80.379 / 246.0
g1 = g0 * math.sqrt((91.1876 / 80.379) ** 2 - 1)
yt = math.sqrt(0.5) * g0 * 173.0 / 80.379
cH = (3 * g0 ** 2 + g1 ** 2 + 4 * yt ** 2 + 8 * lHH) / 16 + lHS / 24
cS = lHS / 6 + lSS / 4
TN = 100.0


def V(v, x, T):
    return (0.5 * (muHsq0 + cH * T ** 2) * v ** 2 + 0.25 * lHH * v ** 4
            + 0.5 * (muSsq0 + cS * T ** 2) * x ** 2 + 0.25 * lSS * x ** 4
            + 0.25 * lHS * v ** 2 * x ** 2 - 107.75 * math.pi ** 2 / 90 * T ** 4)


def run(shift):
    sh = np.asarray(shift, float)

    class Veff(EffectivePotential):
        fieldCount = 2
        effectivePotentialError = 1e-15

        def evaluate(self, fields, temperature):
            f = Fields(fields)
            return V(f.getField(0) - sh[0], f.getField(1) - sh[1], temperature)

    class Model(GenericModel):
        def __init__(self):
            self.veff = Veff()
            self.clearParticles()

        @property
        def fieldCount(self):
            return 2

        def getEffectivePotential(self):
            return self.veff

    logging.disable(logging.CRITICAL)
    m = WallGo.WallGoManager()
    m.registerModel(Model())
    m.setupThermodynamicsHydrodynamics(
        WallGo.PhaseInfo(temperature=TN, phaseLocation1=Fields(np.array([0.0, 110.0]) + sh),
                         phaseLocation2=Fields(np.array([195.0, 0.0]) + sh)),
        WallGo.VeffDerivativeSettings(temperatureVariationScale=1.0,
                                      fieldValueVariationScale=[50.0, 30.0]))
    r = m.solveWall(WallGo.WallSolverSettings(bIncludeOffEquilibrium=False,
                                              meanFreePathScale=50.0, wallThicknessGuess=5.0))
    return float(r.wallVelocity), np.array(r.wallWidths, float), np.array(r.wallOffsets, float)


A = run((0.0, 0.0))
B = run((-159.4, 30.0))
dvw = abs(A[0] - B[0])
dw = float(np.max(np.abs(B[1] / A[1] - 1)))
print("base      : vw=%.8f widths=%s offsets=%s" % (A[0], A[1], A[2]))
print("translated: vw=%.8f widths=%s offsets=%s" % (B[0], B[1], B[2]))
print("|dvw| = %.2e   max rel. width change = %.2e" % (dvw, dw))
# the check's own tolerances for a relabelling that keeps the field order (TOL_SAME)
bad = dvw > 2e-5 or dw > 5e-4
print("PROPERTY BROKEN" if bad else "covariant")
sys.exit(1 if bad else 0)
