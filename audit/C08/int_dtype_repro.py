"""Genuine defect on the UNCHANGED tree (effectivePotential.py:149 `resLocation = np.empty_like(guesses)`):
an integer-typed phase guess makes findLocalMinimum return the minimum truncated to integers, so the phase
location does not move by the translation vector.  Exit 1 when the defect is present.
Run: PYTHONPATH=/repo/src /venv/bin/python -W ignore int_dtype_repro.py"""
import sys
sys.path.insert(0, "/verif/tools"); sys.path.insert(0, "/verif/tools/props")
import numpy as np
import C08 as H
from WallGo import Fields
v0 = H.make_model("xsm2", (0, 1), (1, 1), (0.0, 0.0)).getEffectivePotential()
v1 = H.make_model("xsm2", (0, 1), (1, 1), (0.5, 0.5)).getEffectivePotential()
a = np.ravel(v0.findLocalMinimum(Fields([0, 110]), 100.0)[0])          # ints, as a user would type them
b = np.ravel(v1.findLocalMinimum(Fields([0.5, 110.5]), 100.0)[0])      # translated by (0.5, 0.5)
print("base (int guess):", a, " translated by (0.5,0.5):", b, " difference:", b - a, "(expected [0.5 0.5])")
sys.exit(1 if np.max(np.abs(b - a - 0.5)) > 1e-4 * 246 else 0)
