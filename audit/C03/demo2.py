"""C03 demo 2: near-Jouguet hybrids with TIGHT solver tolerances (rtol 1e-9, atol 1e-12).

Run with PYTHONPATH=<repo>/src.  Exit 0: for vw = vJ - {3e-4, 2e-4, 1e-4} the flow integrated
from the returned (v+, T+) to the shock front and crossed with energy-flux conservation ends at
Tn to 1e-6 (relative; the clean code reaches ~1e-10, the check's own tight tolerance is 5e-8).
Exit 1 otherwise.
"""
import sys
import warnings

warnings.filterwarnings("ignore")
# --- independent integration of the self-similar flow (scipy DOP853, rtol 1e-12; written in xi
# for the shock wave and in v for the rarefaction wave; nothing taken from WallGo's hydrodynamics)
from dataclasses import dataclass

from scipy.integrate import solve_ivp
from scipy.optimize import brentq

import WallGo


@dataclass
class FE:
    minPossibleTemperature: list
    maxPossibleTemperature: list


class Bag(WallGo.Thermodynamics):
    """p_s = T^4 - eps, p_b = psi T^4 (cs^2 = cb^2 = 1/3)"""

    def __init__(s, psi, Tn):
        s.psi, s.eps, s.Tnucl = psi, 1.0 - psi, Tn
        s.freeEnergyHigh = FE([0.1, False], [500.0, False])
        s.freeEnergyLow = FE([0.1, False], [500.0, False])
        s.TMinLowT = s.TMinHighT = 0.01
        s.TMaxLowT = s.TMaxHighT = 5.0

    def pHighT(s, T):
        return T ** 4 - s.eps

    def dpHighT(s, T):
        return 4 * T ** 3

    def ddpHighT(s, T):
        return 12 * T ** 2

    def pLowT(s, T):
        return s.psi * T ** 4

    def dpLowT(s, T):
        return 4 * s.psi * T ** 3

    def ddpLowT(s, T):
        return 12 * s.psi * T ** 2


def mu(xi, v):
    return (xi - v) / (1 - xi * v)


def shock_wave(th, vw, vp, Tp):
    """from the wall to the front mu(xi,v) xi = cs^2(T).  Returns (xiS, vS, TS, I) with
    I = int xi^2 v^2 gamma^2 w dxi over the shock wave."""
    def rhs(xi, y):
        v, T, _ = y
        g2 = 1 / (1 - v * v)
        m = mu(xi, v)
        dv = 2 * v / xi / (g2 * (1 - v * xi) * (m * m / float(th.csqHighT(T)) - 1))
        return [dv, T * g2 * m * dv, xi * xi * v * v * g2 * float(th.wHighT(T))]

    def front(xi, y):
        return max(mu(xi, y[0]) * xi - float(th.csqHighT(y[1])), 1e-9 - y[0])
    front.terminal = True
    y0 = [mu(vw, vp), Tp, 0.0]
    if front(vw, y0) >= 0:
        return vw, y0[0], Tp, 0.0
    sol = solve_ivp(rhs, [vw, 0.9999], y0, events=front, method="DOP853", rtol=1e-12,
                    atol=1e-16)
    assert sol.status == 1, "shock front not reached"
    vS, TS, I = sol.y_events[0][0]
    return sol.t_events[0][0], vS, TS, I


def temperature_ahead(th, vw, vp, Tp):
    """cross the front with energy-flux conservation into plasma at rest"""
    xiS, vS, TS, _ = shock_wave(th, vw, vp, Tp)
    m = mu(xiS, vS)
    target = float(th.wHighT(TS)) * m / (1 - m * m) * (1 - xiS * xiS) / xiS
    return brentq(lambda t: float(th.wHighT(t)) - target, 0.3 * TS, TS, xtol=1e-300, rtol=1e-14)


def rarefaction_integral(th, vw, vm, Tm):
    """int xi^2 v^2 gamma^2 w dxi over the rarefaction wave, taken positive; parametrised by
    the fluid velocity so that the sonic point (dxi/dv = 0) is harmless"""
    v0 = mu(vw, vm)
    if v0 <= 1e-9:
        return 0.0

    def rhs(s, y):          # s = -v increases
        v, (xi, T, _) = -s, y
        g2 = 1 / (1 - v * v)
        m = mu(xi, v)
        dxi = g2 * (1 - v * xi) * (m * m / float(th.csqLowT(T)) - 1) * xi / 2 / v
        return [-dxi, -T * g2 * m, -xi * xi * v * v * g2 * float(th.wLowT(T)) * dxi]
    sol = solve_ivp(rhs, [-v0, -1e-9], [vw, Tm, 0.0], method="DOP853", rtol=1e-12, atol=1e-16)
    return -sol.y[2, -1]


def kinetic_energy_fraction(th, alN, vJ, vw, vp, vm, Tp, Tm):
    """kappa = 4/(vw^3 alpha_n w_n) int xi^2 v^2 gamma^2 w dxi over the whole profile"""
    pre = 4.0 / (vw ** 3 * alN * float(th.wHighT(th.Tnucl)))
    ksw = pre * shock_wave(th, vw, vp, Tp)[3] if vw < vJ and vw != vp else 0.0
    krw = pre * rarefaction_integral(th, vw, vm, Tm) if vw ** 2 > float(th.csqLowT(Tm)) else 0.0
    return ksw + krw, ksw, krw

# --- the demo

bad = 0
for psi, Tn in ((0.7, 0.9), (0.9, 0.7)):
    th = Bag(psi, Tn)
    hy = WallGo.Hydrodynamics(th, 10.0, 0.01, 1e-9, 1e-12)
    for d in (3e-4, 2e-4, 1e-4):
        vw = hy.vJ - d
        vp, vm, Tp, Tm = hy.findMatching(vw)
        tn = temperature_ahead(th, vw, vp, Tp)
        r = abs(tn - Tn) / Tn
        bad += r > 1e-6
        print("bag psi=%.1f Tn=%.1f vw=vJ-%.0e: v+=%.9f T+=%.9f -> T ahead %.9f (rel %.2e)%s" % (
            psi, Tn, d, vp, Tp, tn, r, "" if r <= 1e-6 else "   <-- Tn NOT reached"))
sys.exit(1 if bad else 0)
