"""C03 demo 1: slow deflagrations (vMin <= vw < 0.03) -- does the returned (v+, T+) reach Tn?

Run with PYTHONPATH=<repo>/src.  Exit 0: the flow integrated from the returned state in front
of the wall to the shock front, crossed with energy-flux conservation, ends at Tn (rel 5e-5,
the check's own default tolerance) for every sampled slow wall.  Exit 1 otherwise.
Independent integration in the similarity variable xi with scipy's DOP853 at rtol 1e-11.
"""
import sys
import warnings
from dataclasses import dataclass

import numpy as np
from scipy.integrate import solve_ivp
from scipy.optimize import brentq

import WallGo

warnings.filterwarnings("ignore")


@dataclass
class FE:
    minPossibleTemperature: list
    maxPossibleTemperature: list


class TwoStep(WallGo.Thermodynamics):
    def __init__(s, ab, asy, musq, Tn):
        s.aLowT, s.aHighT, s.musq, s.Tnucl = ab, asy, musq, Tn
        s.freeEnergyHigh = FE([0.01, False], [5.0, False])
        s.freeEnergyLow = FE([0.01, False], [5.0, False])
        s.TMinLowT = s.TMinHighT = 0.01
        s.TMaxLowT = s.TMaxHighT = 5.0

    def pHighT(s, T):
        return T ** 4 + (s.aLowT - s.aHighT + s.aHighT * T ** 2 - s.musq) ** 2 - s.musq ** 2

    def dpHighT(s, T):
        return 4 * T ** 3 + 4 * s.aHighT * T * (s.aLowT - s.aHighT + s.aHighT * T ** 2 - s.musq)

    def ddpHighT(s, T):
        return 12 * T ** 2 + 8 * s.aHighT ** 2 * T ** 2 + 4 * s.aHighT * (
            s.aLowT - s.aHighT + s.aHighT * T ** 2 - s.musq)

    def pLowT(s, T):
        return T ** 4 + (s.aLowT * T ** 2 - s.musq) ** 2 - s.musq ** 2

    def dpLowT(s, T):
        return 4 * T ** 3 + 4 * s.aLowT * T * (s.aLowT * T ** 2 - s.musq)

    def ddpLowT(s, T):
        return 12 * T ** 2 + 8 * s.aLowT ** 2 * T ** 2 + 4 * s.aLowT * (s.aLowT * T ** 2 - s.musq)


def mu(xi, v):
    return (xi - v) / (1 - xi * v)


def temperature_ahead(th, vw, vp, Tp):
    """integrate dv/dxi, dT/dxi from the wall to the front mu(xi,v) xi = cs^2(T); cross it"""
    def rhs(xi, y):
        v, T = y
        g2 = 1 / (1 - v * v)
        m = mu(xi, v)
        dv = 2 * v / xi / (g2 * (1 - v * xi) * (m * m / float(th.csqHighT(T)) - 1))
        return [dv, T * g2 * m * dv]

    def front(xi, y):
        # weak shocks approach the front asymptotically (v -> 0): stop once the fluid is at
        # rest to 1e-9, the jump there is negligible
        return max(mu(xi, y[0]) * xi - float(th.csqHighT(y[1])), 1e-9 - y[0])
    front.terminal = True
    sol = solve_ivp(rhs, [vw, 0.999], [mu(vw, vp), Tp], events=front, method="DOP853",
                    rtol=1e-11, atol=0)
    assert sol.status == 1, "front not reached"
    xiS, (vS, TS) = sol.t_events[0][0], sol.y_events[0][0]
    m = mu(xiS, vS)
    target = float(th.wHighT(TS)) * m / (1 - m * m) * (1 - xiS * xiS) / xiS
    return brentq(lambda t: float(th.wHighT(t)) - target, 0.3 * TS, TS, xtol=1e-300, rtol=1e-14)


bad = 0
for Tn in (0.6, 0.7):
    th = TwoStep(0.2, 0.1, 0.4, Tn)
    hy = WallGo.Hydrodynamics(th, 10.0, 0.01, 1e-6, 1e-10)
    assert hy.vMin <= 1e-3 + 1e-12 and hy.vJ > 0.5      # slow walls are inside [vMin, vJ)
    for vw in (0.012, 0.018, 0.024, 0.029):
        vp, vm, Tp, Tm = hy.findMatching(vw)
        tn = temperature_ahead(th, vw, vp, Tp)
        r = abs(tn - Tn) / Tn
        flag = "" if r <= 5e-5 else "   <-- nucleation temperature NOT reached"
        bad += r > 5e-5
        print("Tn=%.2f vw=%.3f: v+=%.8f T+=%.8f -> T ahead of the front %.8f (rel %.2e)%s" % (
            Tn, vw, vp, Tp, tn, r, flag))
sys.exit(1 if bad else 0)
