"""C13 demo 1: moments of a species that is massless in the symmetric phase.

A particle with m^2(phi) = y^2 phi^2 / 2 is exactly massless wherever phi = 0 (the symmetric
side of every wall).  The four moments returned by BoltzmannSolver.getDeltas(deltaF) must be
the Gauss-Chebyshev-Lobatto sums of  pp dpz dpp /(4 pi^2 E) * {1, pz^2, E^2, E pz} * deltaF
with E = sqrt(m^2 + pz^2 + pp^2) and m^2 = msqVacuum(field).  Everything on the reference
side is written out from the definitions (own nodes, own maps, own Jacobians, own masses).
Exit 0 when they agree to 1e-10 (relative to the sum of absolute terms), 1 otherwise.
"""
import sys
import numpy as np
import WallGo
from WallGo.collisionArray import CollisionArray

M, N, T0 = 8, 7, 100.0
rng = np.random.default_rng(7)

top = WallGo.Particle(
    name="top", index=0,
    msqVacuum=lambda f: 0.5 * f.getField(0) ** 2,
    msqDerivative=lambda f: np.transpose([f.getField(0)]),
    statistics="Fermion", totalDOFs=12)

grid = WallGo.grid.Grid(M, N, 0.05, T0)
chi, rz, rp = grid.getCompactCoordinates()
# wall: phi = 0 (symmetric phase) for chi <= 0, rises to 120 in the broken phase
chiFull = np.concatenate(([-1.0], chi, [1.0]))
phi = 120.0 * np.clip(chiFull, 0.0, None) ** 2
v = -0.55 * np.ones(M + 1)
bg = WallGo.BoltzmannBackground(
    velocityMid=-0.55, velocityProfile=v,
    fieldProfiles=WallGo.Fields(phi[:, None]), temperatureProfile=T0 * np.ones(M + 1))

solver = WallGo.BoltzmannSolver(grid, "Cardinal", "Cardinal", "Spectral")
solver.updateParticleList([top])
solver.setBackground(bg)
coll = CollisionArray(grid, "Cardinal", [top])
coll.polynomialData.coefficients[...] = 0.0
solver.setCollisionArray(coll)

deltaF = rng.standard_normal((1, M - 1, N - 1, N - 1))
D = solver.getDeltas(deltaF.copy()).Deltas

# ---- reference, from the definitions only
pz = 2 * T0 * np.arctanh(rz)[None, :, None]
pp = -T0 * np.log((1 - rp) / 2)[None, None, :]
msq = (0.5 * phi[1:-1] ** 2)[:, None, None]
E = np.sqrt(msq + pz ** 2 + pp ** 2)
qz = (np.pi / N * np.sqrt(1 - rz ** 2) * 2 * T0 / (1 - rz ** 2))[None, :, None]
qp = np.pi / (N - 1) * np.sqrt(1 - rp ** 2) * T0 / (1 - rp)
qp[0] *= 0.5
qp = qp[None, None, :]
meas = qz * qp * pp / (4 * np.pi ** 2 * E)
ws = dict(Delta00=1.0 + 0 * E, Delta02=pz ** 2 + 0 * E, Delta20=E ** 2, Delta11=E * pz)

bad = 0
for name, w in ws.items():
    got = np.asarray(getattr(D, name).coefficients)[0]
    ref = np.sum(meas * w * deltaF[0], axis=(1, 2))
    scale = np.sum(np.abs(meas * w * deltaF[0]), axis=(1, 2))
    err = np.abs(got - ref) / scale
    k = int(np.argmax(err))
    print("%s: max |got-ref|/scale = %.3e at z-node %d (msq there = %g): got %.12g, integral %.12g"
          % (name, err[k], k, msq[k, 0, 0], got[k], ref[k]))
    if not np.all(err < 1e-10):
        bad += 1
print("BROKEN" if bad else "OK")
sys.exit(1 if bad else 0)
