"""C13 demo 2: one BoltzmannSolver taken through two backgrounds (what EOM.wallPressure does at
every iteration: new wall shape -> new field profile -> setBackground -> getDeltas).

After solver.setBackground(bg2) the moments of a given deviation must be the quadrature sums of
pp dpz dpp/(4 pi^2 E) {1, pz^2, E^2, E pz} deltaF with E built from the mass profile of bg2
(m^2 = msqVacuum(bg2.fieldProfiles) at the interior z nodes), and T30/T33 assembled from them
must be the boosted direct sums.  Reference written out from the definitions (own nodes, maps,
Jacobians, masses).  Exit 0 when all agree to 1e-10 of the sum of absolute terms, else 1.
"""
import sys
import types
import numpy as np
import WallGo
from WallGo.collisionArray import CollisionArray

M, N, T0 = 8, 7, 100.0
rng = np.random.default_rng(3)
top = WallGo.Particle(
    name="top", index=0,
    msqVacuum=lambda f: 0.5 * f.getField(0) ** 2,
    msqDerivative=lambda f: np.transpose([f.getField(0)]),
    statistics="Fermion", totalDOFs=12)
grid = WallGo.grid.Grid(M, N, 0.05, T0)
chi, rz, rp = grid.getCompactCoordinates()
chiFull = np.concatenate(([-1.0], chi, [1.0]))


def background(vev, width):
    phi = 0.5 * vev * (1 + np.tanh(np.arctanh(np.clip(chiFull, -1 + 1e-12, 1 - 1e-12)) / width)) + 1.0
    return phi, WallGo.BoltzmannBackground(
        velocityMid=-0.55, velocityProfile=-0.55 * np.ones(M + 1),
        fieldProfiles=WallGo.Fields(phi[:, None]), temperatureProfile=T0 * np.ones(M + 1))


phi1, bg1 = background(150.0, 1.0)
phi2, bg2 = background(220.0, 0.4)       # next iterate of the wall: other vev and width

solver = WallGo.BoltzmannSolver(grid, "Cardinal", "Chebyshev", "Spectral")
solver.updateParticleList([top])
coll = CollisionArray(grid, "Chebyshev", [top])
coll.polynomialData.coefficients[...] = 0.0
solver.setCollisionArray(coll)

nodal = rng.standard_normal((1, M - 1, N - 1, N - 1))
poly = WallGo.Polynomial(nodal.copy(), grid, ("Array", "Cardinal", "Cardinal", "Cardinal"),
                         ("Array", "z", "pz", "pp"), False)
poly.changeBasis(("Array", "Cardinal", "Chebyshev", "Chebyshev"))
deltaF = np.array(poly.coefficients)

solver.setBackground(bg1)
solver.getDeltas(deltaF.copy())
solver.setBackground(bg2)
D = solver.getDeltas(deltaF.copy()).Deltas

# ---- reference for bg2, from the definitions only
pz = 2 * T0 * np.arctanh(rz)[None, :, None]
pp = -T0 * np.log((1 - rp) / 2)[None, None, :]
msq = (0.5 * phi2[1:-1] ** 2)[:, None, None]
E = np.sqrt(msq + pz ** 2 + pp ** 2)
qz = (np.pi / N * np.sqrt(1 - rz ** 2) * 2 * T0 / (1 - rz ** 2))[None, :, None]
qp = np.pi / (N - 1) * np.sqrt(1 - rp ** 2) * T0 / (1 - rp)
qp[0] *= 0.5
meas = qz * qp[None, None, :] * pp / (4 * np.pi ** 2 * E)
ws = dict(Delta00=1.0 + 0 * E, Delta02=pz ** 2 + 0 * E, Delta20=E ** 2, Delta11=E * pz)
bad = 0
for name, w in ws.items():
    got = np.asarray(getattr(D, name).coefficients)[0]
    ref = np.sum(meas * w * nodal[0], axis=(1, 2))
    err = np.abs(got - ref) / np.sum(np.abs(meas * w * nodal[0]), axis=(1, 2))
    k = int(np.argmax(err))
    print("%s: max |got-ref|/scale = %.3e (z-node %d: got %.10g, integral with the masses of the "
          "current background %.10g)" % (name, err[k], k, got[k], ref[k]))
    bad += not np.all(err < 1e-10)
# T30 / T33 at the middle node
v = -0.55
u0 = 1 / np.sqrt(1 - v * v)
u3 = u0 * v
k = (M - 1) // 2
fp = bg2.fieldProfiles.getFieldPoint(k + 1)
T30, T33 = WallGo.EOM.deltaToTmunu(types.SimpleNamespace(particles=[top]), k, fp, v, D)
p0, p3 = u0 * E + u3 * pz, u3 * E + u0 * pz
for nm, x, y in (("T30", T30, 12 * np.sum(meas * p3 * p0 * nodal[0], axis=(1, 2))[k]),
                 ("T33", T33, 12 * np.sum(meas * p3 * p3 * nodal[0], axis=(1, 2))[k])):
    x = float(np.ravel(x)[0])
    sc = 12 * np.sum(np.abs(meas * p3 * p3 * nodal[0]), axis=(1, 2))[k]
    print("%s(z_%d) = %.10g, boosted direct sum %.10g" % (nm, k, x, y))
    bad += not abs(x - y) < 1e-10 * sc
print("BROKEN" if bad else "OK")
sys.exit(1 if bad else 0)
