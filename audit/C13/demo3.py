"""C13 demo 3: production grid class (Grid3Scales) whose momentum scale is changed in place.

For each weight w in {1, pz^2, E^2, E pz} a deviation is given as a FUNCTION OF THE PHYSICAL
MOMENTA (pz, pp), built for the momentum scale T = 130 the grid is rescaled to:

    deltaF_w(pz, pp) = (T^3/pi^2) S(rz) A(rz) S(rp) B(rp) / ( pp/(4 pi^2 E) * dpz/drz * dpp/drp * w ),
    rz = tanh(pz/2T), rp = 1 - 2 exp(-pp/T), S(x) = sqrt(1-x^2),
    dpz/drz = 2T/(1-rz^2), dpp/drp = T/(1-rp)          (the documented WallGo compactification)

so that  int d^3p/((2pi)^3 E) w deltaF_w = (T^3/pi^2) int S A drz  int S B drp  in closed form and
the integrand lies in the polynomial space of a grid with scale T (quadrature exact).
The user samples deltaF_w at the grid's momentum nodes grid.getCoordinates() and calls
getDeltas.  Exit 0 if all four moments equal the closed form to 1e-10, else 1.
"""
import math
import sys
import numpy as np
import WallGo
from WallGo.collisionArray import CollisionArray

M, N, T0, T1, mass = 4, 11, 100.0, 130.0, 80.0
A = [6.0, 1.0, -2.0, 0.5]          # A(x) = 6 + x - 2 x^2 + x^3/2
B = [5.0, -1.5, 0.75]


def chebw(j):                       # int_{-1}^{1} sqrt(1-x^2) x^j dx
    if j % 2:
        return 0.0
    m = j // 2
    return math.pi * math.factorial(2 * m) / (2 ** (2 * m + 1) * math.factorial(m) * math.factorial(m + 1))


closed = T1 ** 3 / math.pi ** 2 * sum(a * chebw(j) for j, a in enumerate(A)) \
    * sum(b * chebw(j) for j, b in enumerate(B))

part = WallGo.Particle(
    name="p", index=0,
    msqVacuum=lambda f: mass ** 2 + 0 * f.getField(0),
    msqDerivative=lambda f: np.transpose([0 * f.getField(0)]),
    statistics="Fermion", totalDOFs=12)
# argument pattern of WallGoManager.buildGrid: (M, N, tail, tail, thickness, T, ratio, smoothing)
grid = WallGo.Grid3Scales(M, N, 0.25, 0.25, 0.05, T0, 0.5, 0.1)
grid.changePositionFalloffScale(0.3, 0.35, 0.04, 0.01)     # what the EOM does all the time
grid.changeMomentumFalloffScale(T1)
bg = WallGo.BoltzmannBackground(
    velocityMid=-0.5, velocityProfile=-0.5 * np.ones(M + 1),
    fieldProfiles=WallGo.Fields(np.ones((M + 1, 1))), temperatureProfile=T0 * np.ones(M + 1))
solver = WallGo.BoltzmannSolver(grid, "Cardinal", "Cardinal", "Spectral")
solver.updateParticleList([part])
solver.setBackground(bg)
coll = CollisionArray(grid, "Cardinal", [part])
coll.polynomialData.coefficients[...] = 0.0
solver.setCollisionArray(coll)


def deviation(w, pz, pp):
    E = np.sqrt(mass ** 2 + pz ** 2 + pp ** 2)
    rz = np.tanh(pz / 2 / T1)
    rp = 1 - 2 * np.exp(-pp / T1)
    meas = pp / (4 * np.pi ** 2 * E) * (2 * T1 / (1 - rz ** 2)) * (T1 / (1 - rp))
    num = T1 ** 3 / np.pi ** 2 * np.sqrt(1 - rz ** 2) * np.polyval(A[::-1], rz) \
        * np.sqrt(np.clip(1 - rp ** 2, 0, None)) * np.polyval(B[::-1], rp)
    with np.errstate(divide="ignore", invalid="ignore"):
        out = num / (meas * w(E, pz))
    return np.where(pp > 0, out, 0.0)    # pp = 0 is a set of measure zero (and S(rp) = 0 there)


ws = dict(Delta00=lambda E, pz: 1.0 + 0 * E, Delta02=lambda E, pz: pz ** 2 + 0 * E,
          Delta20=lambda E, pz: E ** 2, Delta11=lambda E, pz: E * pz)
_, pz, pp = grid.getCoordinates()
bad = 0
for name, w in ws.items():
    dF = np.broadcast_to(deviation(w, pz[:, None], pp[None, :]), (1, M - 1, N - 1, N - 1)).copy()
    got = float(np.asarray(getattr(solver.getDeltas(dF).Deltas, name).coefficients)[0, 0])
    print("%s: getDeltas %.13g   momentum integral %.13g   ratio %.10f" % (name, got, closed, got / closed))
    if not abs(got - closed) < 1e-10 * abs(closed):
        bad += 1
print("BROKEN" if bad else "OK")
sys.exit(1 if bad else 0)
