"""
C16 audit demo 1 -- Polynomial.matrix(basis, direction, endpoints) is M_ij = phi_j(x_i): applied to the
coefficients in that basis it must give the grid values of the polynomial ("evaluation returns ...
its grid values at grid points", in either representation; `matrix` is in the property's observe_at).

For every direction, with and without boundary points, both bases: an admissible polynomial f
(vanishing at the dropped boundary points), its grid values v = f(nodes), its Chebyshev coefficients
from changeBasis; checks   matrix("Cardinal") @ v == v   and   matrix("Chebyshev") @ c == v.
The matrices are requested from an unrelated object with the default `endpoints` where possible,
exactly as boltzmann.py:491-493 does (temperaturePoly.matrix(self.basisN, "pp")).
Exit 0 = property holds, 1 = violated.
"""
import sys
import numpy as np
from WallGo.grid import Grid
from WallGo.polynomial import Polynomial

bad = 0
for (M, N) in ((4, 5), (3, 7), (8, 9)):
    grid = Grid(M, N, 1.0, 1.0)
    other = Polynomial(np.ones(M + 1), grid, "Cardinal", "z", True)   # like temperaturePoly
    for d in ("z", "pz", "pp"):
        for ep in (False, True):
            x = np.asarray(grid.getCompactCoordinates(ep, d), dtype=float)
            if ep:
                f = 2.0 + x + x**2
            elif d == "pp":
                f = (1 - x) * (2.0 + x)
            else:
                f = (1 - x**2) * (2.0 + x)
            p = Polynomial(f.copy(), grid, "Cardinal", d, ep)
            p.changeBasis("Chebyshev")
            for basis, c in (("Cardinal", f), ("Chebyshev", p.coefficients)):
                m = other.matrix(basis, d) if not ep else other.matrix(basis, d, True)
                got = np.asarray(m) @ c
                err = float(np.max(np.abs(got - f)))
                if not err < 1e-9:
                    bad += 1
                    print("VIOLATED M=%d N=%d %s endpoints=%s basis=%s: matrix @ coefficients differs "
                          "from the grid values by %.3g" % (M, N, d, ep, basis, err))
                    print("   grid values :", np.round(f, 6))
                    print("   matrix @ c  :", np.round(got, 6))
print("violations:", bad)
sys.exit(1 if bad else 0)
