"""
C16 audit -- call forms of the UNCHANGED code that the check never exercises and that do not satisfy the
property (run with PYTHONPATH=/repo/src).  Prints what happens; exit 1 if any of them misbehaves.
"""
import sys
import numpy as np
from WallGo.grid import Grid
from WallGo.polynomial import Polynomial

grid = Grid(4, 5, 1.0, 1.0)
bad = 0

# (1) changeBasis with the documented STRING form on an object with an 'Array' axis: the Array axis is
#     relabelled 'Chebyshev' without being transformed, the way back treats it as a polynomial axis.
A = np.array([[1.0, 6.0, 1.0]])                       # shape (1, 3): (Array, z without end points)
p = Polynomial(A.copy(), grid, ("Array", "Cardinal"), ("z", "z"), (False, False))
p.changeBasis("Chebyshev")
print("(1) basis after changeBasis('Chebyshev'):", p.basis, " (axis 0 is an Array axis)")
p.changeBasis("Cardinal")
print("    after changeBasis('Cardinal'): shape", p.coefficients.shape, "expected (1, 3)")
if p.coefficients.shape != A.shape or not np.allclose(p.coefficients, A):
    bad += 1
    print("    ROUND TRIP VIOLATED silently:\n", np.round(p.coefficients, 4))
q = Polynomial(A.copy(), grid, ("Array", "Cardinal"), ("z", "z"), (False, False))
q.changeBasis(("Array", "Chebyshev")); q.changeBasis(("Array", "Cardinal"))
print("    tuple form round trip ok:", np.allclose(q.coefficients, A))

# (2) integer-typed cardinal data (python list of ints): integrate raises
try:
    r = Polynomial([1, 6, 1], grid, "Cardinal", "z", False).integrate()
    print("(2) integrate([1, 6, 1]) =", r)
except Exception as ex:                                # noqa: BLE001
    bad += 1
    print("(2) integrate of integer-typed grid values RAISES %s: %s" % (type(ex).__name__, str(ex)[:90]))
print("    same data as floats:", Polynomial([1.0, 6.0, 1.0], grid, "Cardinal", "z", False).integrate())

# (3) evaluate at a single point (documented shape (len(axes),)) along a subset of the axes
p = Polynomial(np.ones((2, 3)), grid, ("Array", "Cardinal"), ("z", "z"), (False, False))
try:
    print("(3) evaluate([0.3], axes=(1,)) =", p.evaluate(np.array([0.3]), axes=(1,)))
except Exception as ex:                                # noqa: BLE001
    bad += 1
    print("(3) single-point evaluate with a spectator axis RAISES %s: %s" % (type(ex).__name__, str(ex)[:80]))
print("    two-dimensional form:", p.evaluate(np.array([[0.3]]), axes=(1,)))
sys.exit(1 if bad else 0)
