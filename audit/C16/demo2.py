"""
C16 audit demo 2 -- the spectral calculus must be exact for EVERY polynomial representable on the grid,
whatever the numeric type of the coefficient array the caller hands over (python list of ints,
np.arange, integer count arrays, float32/float64).  The check's own generators draw integer
coefficients (rng.randint(-9, 9)) but always store them as float64.

f(x) = (1 - x^2)(3 + 2x) on the position grid without end points (M = 4) and
g(x) = 3 + 2x - x^2       on the p_z grid with end points (N = 5), given by INTEGER grid values
where possible / integer Chebyshev coefficients.  Same calls with the float64 copy of the same
numbers must agree:   changeBasis, round trip, derivative (incl. boundaries), evaluate.
Exit 0 = property holds, 1 = violated.
"""
import sys
import numpy as np
from numpy.polynomial import chebyshev as C
from WallGo.grid import Grid
from WallGo.polynomial import Polynomial

grid = Grid(4, 5, 1.0, 1.0)
bad = 0


def report(what, got, want):
    global bad
    err = float(np.max(np.abs(np.asarray(got, dtype=float) - np.asarray(want, dtype=float))))
    if not err < 1e-9:
        bad += 1
        print("VIOLATED %s: off by %.3g\n   got  %s\n   want %s" % (what, err, np.round(got, 6), np.round(want, 6)))


# (a) integer Chebyshev coefficients, p_z with end points: g = 3 T0 + 2 T1 - (T0+T2)/2 -> use 2g
cheb = [5, 4, -1, 0, 0, 0]                       # 2g = 5 T0 + 4 T1 - T2
xfull = np.asarray(grid.getCompactCoordinates(True, "pz"), dtype=float)
for typ in (int, float):
    p = Polynomial(np.array(cheb, dtype=typ), grid, "Chebyshev", "pz", True)
    d = p.derivative(0)
    report("derivative of integer-typed Chebyshev coefficients (dtype %s)" % typ.__name__,
           d.coefficients, C.chebval(xfull, C.chebder(cheb)))
    p.changeBasis("Cardinal")
    report("changeBasis Chebyshev->Cardinal (dtype %s)" % typ.__name__, p.coefficients,
           C.chebval(xfull, cheb))
    p.changeBasis("Chebyshev")
    report("round trip (dtype %s)" % typ.__name__, p.coefficients, cheb)

# (b) a python list of ints as cardinal data on the position grid without end points (M = 4):
#     nodes -1/sqrt2, 0, 1/sqrt2;  values 1, 6, 1 are those of f(x) = (1-x^2)(6 - 8 x^2)
x = np.asarray(grid.getCompactCoordinates(False, "z"), dtype=float)
vals = [1, 6, 1]
for data in (vals, [float(v) for v in vals]):
    p = Polynomial(data, grid, "Cardinal", "z", False)
    d = p.derivative(0)
    full = np.asarray(grid.getCompactCoordinates(True, "z"), dtype=float)
    report("derivative of %r" % (data,), d.coefficients, -28 * full + 32 * full**3)
    p.changeBasis("Chebyshev")
    q = Polynomial(np.array(p.coefficients, dtype=float), grid, "Chebyshev", "z", False)
    report("evaluate after changeBasis of %r" % (data,), q.evaluate(np.array([[0.3, -0.5]])),
           [(1 - t * t) * (6 - 8 * t * t) for t in (0.3, -0.5)])
print("violations:", bad)
sys.exit(1 if bad else 0)
