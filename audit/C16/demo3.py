"""
C16 audit demo 3 -- "converting between the cardinal and Chebyshev representations and back returns the same
coefficients", for the polynomial the CALLER described: the array handed to Polynomial(...) must still
describe that polynomial after changeBasis (Polynomial.__init__ keeps a reference, np.asanyarray), and two
objects built from the same data must stay independent.

f(x) = (1 - x^2)(6 - 8 x^2) on the position grid without end points (M = 4), grid values v = (1, 6, 1).
Exit 0 = property holds, 1 = violated.
"""
import sys
import numpy as np
from WallGo.grid import Grid
from WallGo.polynomial import Polynomial

grid = Grid(4, 5, 1.0, 1.0)
bad = 0
v = np.array([1.0, 6.0, 1.0])
p = Polynomial(v, grid, "Cardinal", "z", False)
q = Polynomial(v, grid, "Cardinal", "z", False)       # a second polynomial from the same data
p.changeBasis("Chebyshev")
if not np.array_equal(v, [1.0, 6.0, 1.0]):
    bad += 1
    print("VIOLATED: changeBasis overwrote the caller's grid values:", v)
want = (1 - 0.3**2) * (6 - 8 * 0.3**2)
got = q.evaluate(np.array([0.3]))
if abs(got - want) > 1e-9:
    bad += 1
    print("VIOLATED: an independent Polynomial built from the same data now evaluates to %.6f at x=0.3 "
          "instead of %.6f" % (got, want))
p.changeBasis("Cardinal")
if not np.allclose(p.coefficients, [1.0, 6.0, 1.0], atol=1e-9):
    bad += 1
    print("VIOLATED: round trip gives", p.coefficients)
# integer-typed data: the float result is squeezed into the integer buffer
r = Polynomial(np.array([1, 6, 1]), grid, "Cardinal", "z", False)
r.changeBasis("Chebyshev")
ref = Polynomial(np.array([1.0, 6.0, 1.0]), grid, "Cardinal", "z", False)
ref.changeBasis(("Chebyshev",))
if not np.allclose(r.coefficients, ref.coefficients, atol=1e-9):
    bad += 1
    print("VIOLATED: integer-typed grid values give Chebyshev coefficients", r.coefficients, "instead of",
          np.round(ref.coefficients, 6))
print("violations:", bad)
sys.exit(1 if bad else 0)
