"""C17 demo 3: a rescaling call that the grid REJECTS (AssertionError: tails too short for the new
thickness) must leave the object what it was -- a grid equal to a freshly constructed one with its
scales; later valid calls (momentum rescale) must keep it so.  Exit 0 if so, 1 otherwise."""
import sys
import numpy as np
from WallGo.grid3Scales import Grid3Scales

args = (0.2, 0.2, 0.05, 100.0, 0.5, 0.1, 0.0)      # tails, tails, L, T, r, smoothing, centre
g = Grid3Scales(20, 11, *args)
try:
    g.changePositionFalloffScale(0.2, 0.2, 0.5, 0.01)   # thickness x10: needs tails > 0.6
    print("rescale accepted?!")
except AssertionError as e:
    print("rescale rejected:", str(e).split("\n")[0])
g.changeMomentumFalloffScale(120.0)                      # a valid call on the same object

bad = False
try:
    fresh = Grid3Scales(g.M, g.N, g.tailLengthInside, g.tailLengthOutside, g.wallThickness,
                        g.momentumFalloffT, g.ratioPointsWall, g.smoothing, g.wallCenter)
    for a, b, nm in zip(g.getCoordinates() + g.getCompactificationDerivatives(),
                        fresh.getCoordinates() + fresh.getCompactificationDerivatives(),
                        ["xi", "pz", "pp", "dxidchi", "dpzdrz", "dppdrp"]):
        if not np.allclose(a, b, rtol=1e-12, atol=0):
            print("differs from a new grid with the object's scales:", nm)
            bad = True
except AssertionError:
    print("the object's own scales (L=%g, tails=%g,%g) are not admissible: no new grid has them"
          % (g.wallThickness, g.tailLengthInside, g.tailLengthOutside))
    bad = True
j0 = float(g.compactificationDerivatives(np.array(0.0), np.array(0.0), np.array(0.0))[0])
print("slope at the centre %.6g, wallThickness/ratioPointsWall %.6g" % (j0, g.wallThickness / g.ratioPointsWall))
if abs(j0 - g.wallThickness / g.ratioPointsWall) > 1e-9 * j0:
    bad = True
chi = np.linspace(-0.99, 0.99, 199)
J = g.compactificationDerivatives(chi, 0 * chi, 0 * chi)[0]
print("min Jacobian on [-0.99, 0.99]: %.4g" % J.min())
if J.min() <= 0:
    bad = True
print("PROPERTY BROKEN" if bad else "ok")
sys.exit(1 if bad else 0)
