"""C17 demo 2: the coordinates a grid reports through getCoordinates() are the map
(decompactify) of the compact coordinates it reports through getCompactCoordinates(), and the
compact origin sits at the wall centre.  Exit 0 if so, 1 otherwise.  PYTHONPATH=<repo>/src."""
import sys
import numpy as np
from WallGo.grid3Scales import Grid3Scales

bad = False
for c in (0.0, 0.3, -0.0124):
    g = Grid3Scales(20, 11, 0.2, 0.2, 0.05, 100.0, 0.5, 0.1, c)
    g.changePositionFalloffScale(0.25, 0.21, 0.06, c)          # rescaled object, same centre
    for endpoints in (False, True):
        xi, pz, pp = g.getCoordinates(endpoints)
        chi, rz, rp = g.getCompactCoordinates(endpoints)
        with np.errstate(all="ignore"):
            xiMap, pzMap, ppMap = g.decompactify(chi, rz, rp)
        fin = np.isfinite(xi)
        err = np.max(np.abs(xi[fin] - xiMap[fin]))
        k = int(np.argmin(np.abs(chi)))
        print("centre %-8g endpoints=%-5s max|getCoordinates - decompactify(getCompactCoordinates)| "
              "= %.3g ; chi=%.1g reported at xi=%.6g" % (c, endpoints, err, chi[k], xi[k]))
        if err > 1e-12 or abs(xi[k] - c) > 1e-12:
            bad = True
print("PROPERTY BROKEN" if bad else "ok")
sys.exit(1 if bad else 0)
