"""C17 demo 1: the grid re-mapped by EOM._updateGrid must be the grid a constructor call with the
same scales produces (cached coordinates = map of the compact nodes, chi=0 at the wall centre).
Exit 0 if so, 1 otherwise.  Run with PYTHONPATH=<repo>/src."""
import sys
import numpy as np
from WallGo.equationOfMotion import EOM
from WallGo.grid3Scales import Grid3Scales
from WallGo.containers import WallParams

grid = Grid3Scales(20, 11, 0.2, 0.2, 0.05, 100.0, 0.5, 0.1)
eom = EOM.__new__(EOM)          # _updateGrid only reads these three attributes
eom.grid, eom.meanFreePathScale, eom.includeOffEq = grid, 0.2, True

w = 0.05
# two consecutive pressure evaluations: the second field's offset flips sign, which moves the
# centre of the wall by 0.3 w at unchanged thickness 1.15 w and unchanged tails
for off in (0.3, -0.3):
    eom._updateGrid(WallParams(widths=np.array([w, w]), offsets=np.array([0.0, off])), 0.5)

fresh = Grid3Scales(grid.M, grid.N, grid.tailLengthInside, grid.tailLengthOutside,
                    grid.wallThickness, grid.momentumFalloffT, grid.ratioPointsWall,
                    grid.smoothing, grid.wallCenter)
xi = grid.getCoordinates()[0]
xiMap = grid.decompactify(*grid.getCompactCoordinates())[0]
print("wallCenter           :", grid.wallCenter)
print("max |xi - fresh xi|  :", np.max(np.abs(xi - fresh.getCoordinates()[0])))
print("max |xi - map(chi)|  :", np.max(np.abs(xi - xiMap)))
mid = len(xi) // 2                                   # chi = 0 is a node for even M
print("chi=%g -> cached xi %r, wall centre %r" % (grid.chiValues[mid], xi[mid], grid.wallCenter))
bad = (not np.allclose(xi, fresh.getCoordinates()[0], rtol=1e-12, atol=1e-14)
       or not np.allclose(xi, xiMap, rtol=1e-12, atol=1e-14))
print("PROPERTY BROKEN" if bad else "ok")
sys.exit(1 if bad else 0)
