"""C19 demo 1: exactness of helpers.derivative on low-degree polynomials when the step is
large compared with the interval (width < K*dx).  On the unchanged tree the value is exact
(the central row is used; it sticks out of the bounds -- known finding D5 -- but the
*value* is the exact derivative).  Exit 0 = exact everywhere, 1 = inexact somewhere."""
import sys
from fractions import Fraction as F
import numpy as np
from WallGo import helpers

def poly(c):
    return lambda x, *a: sum(k * np.asarray(x, dtype=float) ** i for i, k in enumerate(c))

def dpoly(c, x, n):
    c = list(c)
    for _ in range(n):
        c = [k * i for i, k in enumerate(c)][1:]
    return float(sum(F(k) * F(x) ** i for i, k in enumerate(c)))

bad = 0
#        order n  x     dx    bounds       coefficients (degree <= #points-1 of every row)
CASES = [(2, 1, 0.5,  1.0,  (0.0, 1.0), [1, 3]),
         (4, 1, 0.5,  0.3,  (0.0, 1.0), [2, -1, 4, 5]),
         (4, 2, 1.0,  0.75, (0.0, 2.0), [0, 1, -2, 3, 1]),
         (2, 2, 0.25, 0.5,  (0.0, 1.0), [7, 0, 2]),
         (4, 1, 2.0,  1.5,  (0, 4),     [1, 1, 1, 1])]
for order, n, x, dx, b, c in CASES:
    got = float(helpers.derivative(poly(c), x, n=n, order=order, bounds=b, dx=dx))
    want = dpoly(c, x, n)
    ok = abs(got - want) <= 1e-9 * (1 + abs(want))
    print("order=%d n=%d x=%g dx=%g bounds=%s deg=%d: got %.12g exact %.12g %s" % (
        order, n, x, dx, b, len(c) - 1, got, want, "ok" if ok else "INEXACT"))
    bad += not ok
sys.exit(1 if bad else 0)
