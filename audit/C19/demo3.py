"""C19 demo 3: gradient / hessian for a selection of axes must return, in the order asked
for, the exact derivatives along those axes.  f = x0^2 x1 + 3 x1 + x2^2 (total degree 3, degree <= 2 per variable).
Exit 0 = every selection right, 1 = some selection returns other components."""
import sys
import warnings
warnings.filterwarnings("ignore")
import numpy as np
from WallGo import helpers


def f(x, *a):
    x = np.asarray(x)
    return x[..., 0] ** 2 * x[..., 1] + 3 * x[..., 1] + x[..., 2] ** 2


x = np.array([1.0, 2.0, -1.0])
G = np.array([2 * x[0] * x[1], x[0] ** 2 + 3, 2 * x[2]])
H = np.array([[2 * x[1], 2 * x[0], 0], [2 * x[0], 0, 0], [0, 0, 2.0]])
bad = 0
for order in (2, 4):
    for axis in ([0, 1, 2], [2, 0], [1, 0], [2, 1, 0], [-1, 0], [1, 1]):
        g = helpers.gradient(f, x, order=order, dx=2.0 ** -6, axis=axis)
        want = G[axis]
        ok = g.shape == want.shape and np.allclose(g, want, rtol=1e-9, atol=1e-9)
        print("gradient order=%d axis=%s -> %s want %s %s" % (order, axis, g.tolist(),
                                                             want.tolist(), "ok" if ok else "WRONG"))
        bad += not ok
    for xa, ya in (([0, 1], [0, 1]), ([1, 0], [0, 2]), ([2, 0], [1]), ([0], [-1, 0])):
        h = helpers.hessian(f, x, order=order, dx=2.0 ** -6, xAxis=xa, yAxis=ya)
        want = H[np.ix_(xa, ya)]
        ok = h.shape == want.shape and np.allclose(h, want, rtol=1e-8, atol=1e-8)
        print("hessian order=%d xAxis=%s yAxis=%s -> %s want %s %s" % (
            order, xa, ya, h.tolist(), want.tolist(), "ok" if ok else "WRONG"))
        bad += not ok
sys.exit(1 if bad else 0)
