"""C19 demo 2: second derivatives of a polynomial potential (degree within the exactness
class of the order-4 Hessian stencil) must be exact for the polynomial the object holds
NOW.  History: evaluate, change a coupling of the potential (what updateModel() of every
shipped model does, in place, on the same EffectivePotential object), evaluate again at
the same point.  Exit 0 = exact both times, 1 = second answer is not the derivative."""
import sys
import warnings
warnings.filterwarnings("ignore")
import numpy as np
import WallGo
from WallGo import EffectivePotential, Fields


class Quartic(EffectivePotential):
    fieldCount = 2
    effectivePotentialError = 1e-15

    def __init__(self, lam, mix):
        self.modelParameters = {"lam": lam, "mix": mix}

    def evaluate(self, fields, temperature):
        f = Fields(fields)
        a, b = f.getField(0), f.getField(1)
        T = np.asarray(temperature)
        p = self.modelParameters
        return (p["lam"] * a ** 4 + p["mix"] * a * a * b + 0.5 * b * b * T + a * b * T * T
                - 2.0 * T ** 3)

    def exact(self, a, b, T):
        p = self.modelParameters
        H = np.array([[12 * p["lam"] * a * a + 2 * p["mix"] * b, 2 * p["mix"] * a + T * T],
                      [2 * p["mix"] * a + T * T, T]])
        dT = np.array([2 * b * T, b + 2 * a * T])
        return H, dT, 2 * a * b - 12.0 * T


pot = Quartic(0.25, 1.0)
pot.configureDerivatives(WallGo.VeffDerivativeSettings(
    temperatureVariationScale=1.0, fieldValueVariationScale=[1.0, 2.0]))
a, b, T = 1.5, -0.5, 2.0
fields = Fields([a, b])
bad = 0


def look(tag):
    global bad
    H, dT, d2T = pot.exact(a, b, T)
    gotH = np.asarray(pot.deriv2Field2(fields, T)).reshape(2, 2)
    gotdT = np.asarray(pot.deriv2FieldT(fields, T)).ravel()
    h2, dt2, tt2 = pot.allSecondDerivatives(fields, T)
    err = max(np.max(np.abs(gotH - H)), np.max(np.abs(gotdT - dT)),
              np.max(np.abs(np.asarray(h2).reshape(2, 2) - H)),
              np.max(np.abs(np.asarray(dt2).ravel() - dT)),
              abs(float(np.asarray(tt2).ravel()[0]) - d2T))
    ok = err < 1e-6
    print("%s: params %s  d2V/da2 got %.9g exact %.9g  max err %.3g  %s" % (
        tag, pot.modelParameters, gotH[0, 0], H[0, 0], err, "ok" if ok else "NOT THE DERIVATIVE"))
    bad += not ok


look("first evaluation      ")
pot.modelParameters["lam"] = 1.0      # in-place update, as updateModel() does
pot.modelParameters["mix"] = -3.0
look("after parameter change")
sys.exit(1 if bad else 0)
