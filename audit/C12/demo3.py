"""C12 audit demo 3: the finite-difference cross-check EOM.getBoltzmannFiniteDifference() must be
the finite-difference solution of the SAME problem the spectral solver holds: it has to agree with
an independently built finite-difference solver for the same background, and its source term has
to be the finite-difference approximation of the owner's spectral source.
Exit 0 if it does (1e-9), 1 otherwise."""
import copy
import sys

import numpy as np
import WallGo
from WallGo.grid import Grid
from WallGo.polynomial import Polynomial
from WallGo.collisionArray import CollisionArray
from WallGo.equationOfMotion import EOM

M, N, T0, L = 20, 5, 100.0, 1.0
grid = Grid(M, N, L, T0)
particles = [WallGo.Particle(name="top", index=0, msqVacuum=lambda f: 0.5 * f.getField(0) ** 2,
                             msqDerivative=lambda f: f.getField(0), statistics="Fermion",
                             totalDOFs=12)]
rng = np.random.default_rng(3)
n = N - 1
data = 0.02 * (0.2 * rng.normal(size=(n * n, n * n)) / n + np.eye(n * n))
data = data.reshape(1, n, n, 1, n, n)
collCardinal = CollisionArray.newFromPolynomial(
    Polynomial(data.copy(), grid, ("Array", "Cardinal", "Cardinal", "Array", "Cardinal", "Cardinal"),
               CollisionArray.AXIS_TYPES, endpoints=False), particles)
xi = np.concatenate(([-np.inf], grid.xiValues, [np.inf]))
prof = 0.5 * (1 + np.tanh(xi / L))
v = -0.5 + 0.05 * (prof - 0.5)
background = WallGo.BoltzmannBackground(
    velocityMid=0.5 * (v[0] + v[-1]), velocityProfile=v,
    fieldProfiles=WallGo.Fields((60.0 * (1 - 0.8 * prof))[:, None]),
    temperatureProfile=T0 * (1 + 0.1 * (prof - 0.5)))


def solver(bN, mode):
    s = WallGo.BoltzmannSolver(grid, "Cardinal", bN, mode)
    s.updateParticleList(particles)
    s.setBackground(background)
    c = copy.deepcopy(collCardinal)
    c.changeBasis(bN)
    s.setCollisionArray(c)
    return s


owner = solver("Chebyshev", "Spectral")
eom = object.__new__(EOM)
eom.boltzmannSolver = owner
viaEOM = eom.getBoltzmannFiniteDifference()
direct = solver("Cardinal", "Finite Difference").getDeltas()
spectral = owner.getDeltas()


def rel(a, b):
    return float(np.linalg.norm(np.asarray(a) - np.asarray(b)) / np.linalg.norm(np.asarray(b)))


d = rel(viaEOM.deltaF, direct.deltaF)
d00 = rel(viaEOM.Deltas.Delta00.coefficients, direct.Deltas.Delta00.coefficients)
e = rel(viaEOM.Deltas.Delta00.coefficients, spectral.Deltas.Delta00.coefficients)
print("EOM.getBoltzmannFiniteDifference vs independent finite-difference solver:")
print("  deltaF rel. diff %.3e   Delta00 rel. diff %.3e" % (d, d00))
print("  (finite-difference vs spectral Delta00, the error estimate WallGo reports: %.3e)" % e)
sys.exit(0 if (d < 1e-9 and d00 < 1e-9) else 1)
