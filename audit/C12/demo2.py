"""C12 audit demo 2: on a production-size grid (M=22, N=11, one particle: 2100 unknowns) the
returned deviation must satisfy the assembled linear system to rounding accuracy and must be the
same function on phase space in the (Cardinal, Cardinal) and (Cardinal, Chebyshev) bases.
Exit 0 if both hold to 1e-9 (the tolerance the C12 check itself uses), 1 otherwise."""
import copy
import sys

import numpy as np
import WallGo
from WallGo.grid import Grid
from WallGo.polynomial import Polynomial
from WallGo.collisionArray import CollisionArray

M, N, T0, L = 22, 11, 100.0, 1.0
grid = Grid(M, N, L, T0)
particles = [WallGo.Particle(name="top", index=0, msqVacuum=lambda f: 0.5 * f.getField(0) ** 2,
                             msqDerivative=lambda f: f.getField(0), statistics="Fermion",
                             totalDOFs=12)]
rng = np.random.default_rng(11)
n = N - 1
size = n * n
data = 0.02 * (0.2 * rng.normal(size=(size, size)) / np.sqrt(size) + np.eye(size))
data = data.reshape(1, n, n, 1, n, n)
collCardinal = CollisionArray.newFromPolynomial(
    Polynomial(data.copy(), grid, ("Array", "Cardinal", "Cardinal", "Array", "Cardinal", "Cardinal"),
               CollisionArray.AXIS_TYPES, endpoints=False), particles)
xi = np.concatenate(([-np.inf], grid.xiValues, [np.inf]))
prof = 0.5 * (1 + np.tanh(xi / L))
v = -0.5 + 0.05 * (prof - 0.5)
background = WallGo.BoltzmannBackground(
    velocityMid=0.5 * (v[0] + v[-1]), velocityProfile=v,
    fieldProfiles=WallGo.Fields((60.0 * (1 - 0.8 * prof))[:, None]),
    temperatureProfile=T0 * (1 + 0.1 * (prof - 0.5)))

pts = np.random.default_rng(1).uniform(-0.95, 0.95, size=(3, 25))
vals, worstRes = {}, 0.0
for bN in ("Cardinal", "Chebyshev"):
    s = WallGo.BoltzmannSolver(grid, "Cardinal", bN, "Spectral")
    s.updateParticleList(particles)
    s.setBackground(background)
    c = copy.deepcopy(collCardinal)
    c.changeBasis(bN)
    s.setCollisionArray(c)
    op, src, _, _ = s.buildLinearEquations()
    dF = s.solveBoltzmannEquations()
    res = float(np.linalg.norm(op @ dF.flatten() - src) / np.linalg.norm(src))
    worstRes = max(worstRes, res)
    print("basisN=%-9s unknowns=%d  |A x - s|/|s| = %.3e" % (bN, op.shape[0], res))
    vals[bN] = Polynomial(np.array(dF), grid, ("Array", "Cardinal", bN, bN),
                          ("Array", "z", "pz", "pp"), False).evaluate(pts, (1, 2, 3))
dep = float(np.linalg.norm(vals["Chebyshev"] - vals["Cardinal"]) / np.linalg.norm(vals["Cardinal"]))
print("deltaF at 25 off-grid points, Chebyshev vs Cardinal momentum basis: rel. diff %.3e" % dep)
sys.exit(0 if (worstRes < 1e-9 and dep < 1e-9) else 1)
