"""C12 audit demo 1: a quantity derived from deltaF and returned by getDeltas()
(linearizationCriterion2 = C[deltaF]/L[deltaF]) must not depend on the polynomial basis.
Exit 0 when it is the same in all four (basisM, basisN) combinations, 1 otherwise."""
import copy
import sys

import numpy as np
import WallGo
from WallGo.grid import Grid
from WallGo.polynomial import Polynomial
from WallGo.collisionArray import CollisionArray

M, N, T0, L = 8, 5, 100.0, 1.0
grid = Grid(M, N, L, T0)
particles = [
    WallGo.Particle(name="top", index=0, msqVacuum=lambda f: 0.5 * f.getField(0) ** 2,
                    msqDerivative=lambda f: f.getField(0), statistics="Fermion", totalDOFs=12),
    WallGo.Particle(name="W", index=1, msqVacuum=lambda f: 0.2 * f.getField(0) ** 2,
                    msqDerivative=lambda f: 0.4 * f.getField(0), statistics="Boson", totalDOFs=9),
]
rng = np.random.default_rng(7)
nP, n = len(particles), N - 1
size = nP * n * n
data = 0.02 * (0.2 * rng.normal(size=(size, size)) / np.sqrt(size) + np.eye(size))
data = data.reshape(nP, n, n, nP, n, n)
collCardinal = CollisionArray.newFromPolynomial(
    Polynomial(data.copy(), grid, ("Array", "Cardinal", "Cardinal", "Array", "Cardinal", "Cardinal"),
               CollisionArray.AXIS_TYPES, endpoints=False), particles)

xi = np.concatenate(([-np.inf], grid.xiValues, [np.inf]))
prof = 0.5 * (1 + np.tanh(xi / L))
v = -0.5 + 0.05 * (prof - 0.5)
background = WallGo.BoltzmannBackground(
    velocityMid=0.5 * (v[0] + v[-1]), velocityProfile=v,
    fieldProfiles=WallGo.Fields((60.0 * (1 - 0.8 * prof))[:, None]),
    temperatureProfile=T0 * (1 + 0.1 * (prof - 0.5)))

out = {}
for bM in ("Cardinal", "Chebyshev"):
    for bN in ("Cardinal", "Chebyshev"):
        s = WallGo.BoltzmannSolver(grid, bM, bN, "Spectral")
        s.updateParticleList(particles)
        s.setBackground(background)
        c = copy.deepcopy(collCardinal)
        c.changeBasis(bN)
        s.setCollisionArray(c)
        r = s.getDeltas()
        out[(bM, bN)] = np.array(r.linearizationCriterion2, dtype=float)
        print(bM, bN, "linearizationCriterion2 =", out[(bM, bN)])
ref = out[("Cardinal", "Cardinal")]
worst = max(float(np.abs(x - ref).max() / np.abs(ref).max()) for x in out.values())
print("largest relative basis dependence of C[deltaF]/L[deltaF]: %.3e" % worst)
sys.exit(0 if worst < 1e-8 else 1)
