"""C14 audit demo 1 -- the collision operator of the spectral solver must act identically
after the finite-difference error estimate changed the basis of (its copy of) the array.

EOM.getBoltzmannFiniteDifference copies self.boltzmannSolver, sets the copy to the Cardinal
basis and calls collisionArray.changeBasis("Cardinal") on the copy (in place).  The solver
the EOM keeps using afterwards (basisN = "Chebyshev") must still hold the numbers it loaded.

exit 0: the solver's array and its action on a distribution are unchanged
exit 1: the solver's array was converted in place (operator changed under a basis change)
usage: PYTHONPATH=<tree>/src python demo1.py
"""
import pathlib
import shutil
import sys
import tempfile
import types
import warnings

import numpy as np

warnings.simplefilter("ignore")
import h5py                      # noqa: E402
import WallGo                    # noqa: E402
from WallGo.equationOfMotion import EOM   # noqa: E402


def particle(name):
    return WallGo.Particle(name=name, index=0, msqVacuum=lambda f: 0.0,
                           msqDerivative=lambda f: 0.0, statistics="Fermion", totalDOFs=1)


def main():
    N, names = 5, ["top", "gluon"]
    rs = np.random.default_rng(14)
    d = pathlib.Path(tempfile.mkdtemp(prefix="c14demo1_"))
    try:
        for p1 in names:
            for p2 in names:
                with h5py.File(str(d / f"collisions_{p1}_{p2}.hdf5"), "w") as h:
                    m = h.create_dataset("metadata", data=np.zeros(1))
                    m.attrs["Basis Size"] = N
                    m.attrs["Basis Type"] = "Chebyshev"
                    h.create_dataset(f"{p1}, {p2}", data=rs.normal(size=(N - 1,) * 4))
        solver = WallGo.BoltzmannSolver(WallGo.Grid(3, N, 1.0, 1.0), "Cardinal", "Chebyshev",
                                        "Spectral")
        solver.updateParticleList([particle(n) for n in names])
        solver.loadCollisions(d)
    finally:
        shutil.rmtree(d, ignore_errors=True)

    # a distribution (Chebyshev coefficients, as the spectral solver uses them)
    f = rs.normal(size=(len(names), N - 1, N - 1))
    loaded = np.array(solver.collisionArray[:], copy=True)
    before = np.einsum("axybjk,bjk->axy", solver.collisionArray[:], f)

    # the finite-difference estimate, exactly as EOM runs it; only the (irrelevant here)
    # solution of the Boltzmann equation on the copy is stubbed out
    seen = {}
    orig = WallGo.BoltzmannSolver.getDeltas

    def fake_get_deltas(self, deltaF=None):
        seen["fd_basis"] = (self.basisN, self.collisionArray.getBasisType())
        return None

    WallGo.BoltzmannSolver.getDeltas = fake_get_deltas
    try:
        EOM.getBoltzmannFiniteDifference(types.SimpleNamespace(boltzmannSolver=solver))
    finally:
        WallGo.BoltzmannSolver.getDeltas = orig

    after = np.einsum("axybjk,bjk->axy", solver.collisionArray[:], f)
    rel = float(np.max(np.abs(after - before)) / np.max(np.abs(before)))
    print("finite-difference copy ran with (basisN, array basis) =", seen.get("fd_basis"))
    print("spectral solver: basisN =", solver.basisN, "| array label =",
          solver.collisionArray.getBasisType(), "| array identical to the loaded numbers:",
          bool(np.array_equal(loaded, np.asarray(solver.collisionArray[:]))))
    print("action of the solver's collision operator on a fixed distribution, rel. change: %.3e"
          % rel)
    if rel > 1e-12 or solver.collisionArray.getBasisType() != solver.basisN:
        print("BROKEN: the basis change of the finite-difference copy altered the operator the "
              "spectral solver applies (Cardinal numbers used as Chebyshev ones)")
        return 1
    print("ok: the spectral solver's operator is untouched")
    return 0


if __name__ == "__main__":
    sys.exit(main())
