"""C14 audit demo 2 -- a collision directory with a missing file must end in a
CollisionLoadError (or a complete array), also on the route every user takes:
WallGoManager.setupWallSolver -> BoltzmannSolver.loadCollisions.

The manager is the real class; only the parts unrelated to loading (phase/hydro set-up, grid
sizing, EOM construction) are replaced by light stand-ins.

exit 0: fault-free directory -> complete array installed; directory with a missing file ->
        CollisionLoadError reaches the caller
exit 1: the directory with the missing file yields NO error and NO array
usage: PYTHONPATH=<tree>/src python demo2.py
"""
import logging
import pathlib
import shutil
import sys
import tempfile
import types
import warnings

import numpy as np

warnings.simplefilter("ignore")
import h5py                      # noqa: E402
import WallGo                    # noqa: E402
from WallGo.manager import WallGoManager, WallSolverSettings   # noqa: E402

N = 5
NAMES = ["top", "gluon"]


def particle(name):
    return WallGo.Particle(name=name, index=0, msqVacuum=lambda f: 0.0,
                           msqDerivative=lambda f: 0.0, statistics="Fermion", totalDOFs=1)


def write_dir(skip=None):
    rs = np.random.default_rng(3)
    d = pathlib.Path(tempfile.mkdtemp(prefix="c14demo2_"))
    for p1 in NAMES:
        for p2 in NAMES:
            if (p1, p2) == skip:
                continue
            with h5py.File(str(d / f"collisions_{p1}_{p2}.hdf5"), "w") as h:
                m = h.create_dataset("metadata", data=np.zeros(1))
                m.attrs["Basis Size"] = N
                m.attrs["Basis Type"] = "Chebyshev"
                h.create_dataset(f"{p1}, {p2}", data=rs.normal(size=(N - 1,) * 4))
    return d


def manager_for(directory):
    m = WallGoManager()
    m.setVerbosity(logging.ERROR)
    m.setPathToCollisionData(directory)
    m.phasesAtTn = types.SimpleNamespace(temperature=100.0)
    m.hydrodynamics = object()
    m.model = types.SimpleNamespace(outOfEquilibriumParticles=[particle(n) for n in NAMES])
    m.isModelValid = lambda: True
    m.buildGrid = lambda *a, **k: WallGo.Grid(3, N, 1.0, 1.0)
    m.buildEOM = lambda grid, solver, mfp: types.SimpleNamespace(includeOffEq=None)
    return m


def attempt(directory):
    try:
        ws = manager_for(directory).setupWallSolver(WallSolverSettings(bIncludeOffEquilibrium=True))
    except WallGo.CollisionLoadError as e:
        return "CollisionLoadError", None
    return "returned", ws


def main():
    good, bad = write_dir(), write_dir(skip=("gluon", "top"))
    try:
        k1, ws1 = attempt(good)
        k2, ws2 = attempt(bad)
    finally:
        shutil.rmtree(good, ignore_errors=True)
        shutil.rmtree(bad, ignore_errors=True)
    ok1 = k1 == "returned" and ws1.boltzmannSolver.collisionArray is not None and \
        np.asarray(ws1.boltzmannSolver.collisionArray[:]).shape == (2, N - 1, N - 1, 2, N - 1, N - 1)
    print("complete directory       ->", k1, "| complete array installed:", ok1)
    if not ok1:
        return 1
    if k2 == "CollisionLoadError":
        print("collisions_gluon_top.hdf5 missing -> CollisionLoadError reaches the caller")
        print("ok")
        return 0
    ca = ws2.boltzmannSolver.collisionArray
    print("collisions_gluon_top.hdf5 missing -> no error; solver.collisionArray =", ca,
          "| eom.includeOffEq =", ws2.eom.includeOffEq)
    print("BROKEN: the load failed, yet neither a complete array is installed nor a "
          "CollisionLoadError is raised (the wall is silently solved without collisions)")
    return 1


if __name__ == "__main__":
    sys.exit(main())
