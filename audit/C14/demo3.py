"""C14 audit demo 3 -- a directory with a missing file must raise THE collision-load error,
i.e. the public WallGo.CollisionLoadError that callers catch.

exit 0: `except WallGo.CollisionLoadError` catches the failure of BoltzmannSolver.loadCollisions
exit 1: the failure escapes as a different exception type
usage: PYTHONPATH=<tree>/src python demo3.py
"""
import pathlib
import shutil
import sys
import tempfile
import warnings

import numpy as np

warnings.simplefilter("ignore")
import h5py                      # noqa: E402
import WallGo                    # noqa: E402


def particle(name):
    return WallGo.Particle(name=name, index=0, msqVacuum=lambda f: 0.0,
                           msqDerivative=lambda f: 0.0, statistics="Fermion", totalDOFs=1)


def main():
    N, names = 5, ["top", "gluon"]
    rs = np.random.default_rng(5)
    d = pathlib.Path(tempfile.mkdtemp(prefix="c14demo3_"))
    try:
        for p1 in names:
            for p2 in names:
                if (p1, p2) == ("gluon", "gluon"):
                    continue                      # the missing file
                with h5py.File(str(d / f"collisions_{p1}_{p2}.hdf5"), "w") as h:
                    m = h.create_dataset("metadata", data=np.zeros(1))
                    m.attrs["Basis Size"] = N
                    m.attrs["Basis Type"] = "Chebyshev"
                    h.create_dataset(f"{p1}, {p2}", data=rs.normal(size=(N - 1,) * 4))
        solver = WallGo.BoltzmannSolver(WallGo.Grid(3, N, 1.0, 1.0), "Cardinal", "Chebyshev",
                                        "Spectral")
        solver.updateParticleList([particle(n) for n in names])
        try:
            solver.loadCollisions(d)
        except WallGo.CollisionLoadError as e:
            print("ok: WallGo.CollisionLoadError:", " ".join(str(e).split())[-60:])
            return 0
        except Exception as e:      # noqa: BLE001
            print("BROKEN: raised %s.%s, which `except WallGo.CollisionLoadError` does not catch"
                  % (type(e).__module__, type(e).__name__))
            return 1
        print("BROKEN: no error at all")
        return 1
    finally:
        shutil.rmtree(d, ignore_errors=True)


if __name__ == "__main__":
    sys.exit(main())
