import sys, tempfile, pathlib, numpy as np, h5py
import WallGo
from WallGo.exceptions import CollisionLoadError
def particle(name):
    return WallGo.Particle(name=name, index=0, msqVacuum=lambda f: 0.0, msqDerivative=lambda f: 0.0, statistics="Fermion", totalDOFs=1)
def wdir(files):
    d = pathlib.Path(tempfile.mkdtemp(prefix="c14p_"))
    for (p1,p2),(N,basis,data,dsname) in files.items():
        with h5py.File(str(d/f"collisions_{p1}_{p2}.hdf5"),"w") as h:
            m=h.create_dataset("metadata",data=np.zeros(1)); m.attrs["Basis Size"]=N; m.attrs["Basis Type"]=basis
            if dsname is not None: h.create_dataset(dsname,data=data)
    return d
def solver(N, req, names):
    b = WallGo.BoltzmannSolver(WallGo.Grid(3,N,1.0,1.0),"Cardinal",req,"Spectral")
    b.updateParticleList([particle(n) for n in names]); return b
rs=np.random.default_rng(1)
good={( "a","a"):(5,"Chebyshev",rs.normal(size=(4,)*4),"a, a")}
def attempt(label, files, N=5, req="Chebyshev", names=("a",), pre=True):
    b=solver(N,req,names)
    if pre:
        b.loadCollisions(wdir({(p,q):(5,"Chebyshev",rs.normal(size=(4,)*4),f"{p}, {q}") for p in names for q in names}))
    before=b.collisionArray
    try:
        b.loadCollisions(wdir(files)); print(label,"-> loaded; shape",b.collisionArray[:].shape)
    except Exception as e:
        print(label,"->",type(e).__name__,str(e)[:70].replace("\n"," "),"| kept:",b.collisionArray is before)
attempt("dataset smaller than metadata (meta 5, data 2^4)", {("a","a"):(5,"Chebyshev",rs.normal(size=(2,)*4),"a, a")})
attempt("dataset 2-D (4,4) broadcast", {("a","a"):(5,"Chebyshev",rs.normal(size=(4,4)),"a, a")})
attempt("dataset scalar-like (1,)", {("a","a"):(5,"Chebyshev",np.array([3.0]),"a, a")})
attempt("dataset missing", {("a","a"):(5,"Chebyshev",None,None)})
attempt("basis type bytes", {("a","a"):(5,np.bytes_(b"Chebyshev"),rs.normal(size=(4,)*4),"a, a")})
attempt("unknown basis", {("a","a"):(5,"Fourier",rs.normal(size=(4,)*4),"a, a")})
attempt("size float attr", {("a","a"):(5.0,"Chebyshev",rs.normal(size=(4,)*4),"a, a")})
attempt("even stored size 6 -> 5", {("a","a"):(6,"Chebyshev",rs.normal(size=(5,)*4),"a, a")})
attempt("empty particle list", {}, names=(), pre=False)
attempt("capital names", {("W","W"):(5,"Chebyshev",rs.normal(size=(4,)*4),"W, W")}, names=("W",))
b=solver(5,"Chebyshev",("a",))
try:
    b.loadCollisions(str(wdir(good)))
    print("str path -> loaded")
except Exception as e: print("str path ->",type(e).__name__)
