"""C18 demo 2: a table handed over with newInterpolationTableFromValues (the call FreeEnergy.tracePhase
uses) whose pieces are glued in tracing order (downwards from the start, then upwards).
Exit 0 = contract holds (the class refuses the table, or whatever it returns afterwards agrees with the
function to interpolation accuracy), 1 = broken (wrong values returned silently).
Run: PYTHONPATH=<tree>/src python demo2.py"""
import sys
import logging
import numpy as np
from WallGo import InterpolatableFunction

logging.disable(logging.CRITICAL)


class Vec(InterpolatableFunction):
    def __init__(self):
        super().__init__(bUseAdaptiveInterpolation=False, returnValueCount=2)

    def _functionImplementation(self, x):
        x = np.asarray(x, dtype=float)
        return np.stack([np.sin(0.7 * x), np.cos(0.7 * x)], axis=-1)


f = Vec()
down = np.linspace(2.0, 0.0, 17)          # traced downwards from the starting point
up = np.linspace(2.125, 4.0, 16)          # then upwards
x = np.concatenate((down, up))
fx = f._functionImplementation(x)         # exact (x, f(x)) pairs, every row finite
try:
    f.newInterpolationTableFromValues(x, fx)
    print("table accepted: %d points, range [%g, %g]" % (f.numPoints(), f.interpolationRangeMin(),
                                                         f.interpolationRangeMax()))
except ValueError as e:
    print("table refused (ValueError: %s); hasInterpolation=%s" % (str(e)[:50], f.hasInterpolation()))
xs = np.array([0.3, 1.0, 1.7, 3.1])
got = np.asarray(f(xs))
want = f._functionImplementation(xs)
err = float(np.max(np.abs(got - want)))
print("f(%s)[:,0] = %s\nfunction     = %s\nmax error %.3g (interpolation accuracy for h=0.125 is < 1e-5)"
      % (xs.tolist(), np.round(got[:, 0], 4).tolist(), np.round(want[:, 0], 4).tolist(), err))
if err > 0.5 * 0.125 ** 2:
    print("BROKEN: the value returned does not agree with the underlying function")
    sys.exit(1)
print("ok")
sys.exit(0)
