"""Clean-tree observation (no change applied): the FreeEnergy wrapper (anchored file freeEnergy.py, not
touched by the check) does not keep the shape contract.  PYTHONPATH=/repo/src python this.py"""
import numpy as np, logging
logging.disable(logging.CRITICAL)
import WallGo
from WallGo.freeEnergy import FreeEnergy
class Pot:
    class DS: temperatureVariationScale = 1.0
    derivativeSettings = DS()
    def getInherentRelativeError(self): return 1e-12
    def findLocalMinimum(self, guess, T):
        T = np.atleast_1d(np.asarray(T, dtype=float)).ravel()
        return np.stack([np.sqrt(4 - 0.1 * T ** 2)], axis=-1), -T ** 4
fe = FreeEnergy(Pot(), 1.0, WallGo.Fields([2.0]), initialInterpolationPointCount=50)
fe.disableAdaptiveInterpolation()
fe.newInterpolationTable(0.5, 2.0, 31)
for x in (1.0, np.array([1.0]), np.array([1.0, 1.5]), np.array([[1.0, 1.5], [0.75, 1.25]])):
    try:
        r = fe(x); print(np.shape(x), "-> veffValue shape", np.shape(r.veffValue))
    except Exception as e:
        print(np.shape(x), "-> raised", type(e).__name__)
