"""C18 demo 1: integer-typed input.  Exit 0 = contract holds, 1 = broken.
Run: PYTHONPATH=<tree>/src python demo1.py
A scalar-valued interpolated function must return the spline value for every in-range element and
the mode's prescription outside, whatever the dtype of the input array (int arrays, lists of ints,
Python ints are legal `inputType`)."""
import sys
import logging
import numpy as np
from WallGo import InterpolatableFunction, EExtrapolationType as E

logging.disable(logging.CRITICAL)


class Sin(InterpolatableFunction):
    def _functionImplementation(self, x):
        return np.sin(0.7 * np.asarray(x, dtype=float))


f = Sin(bUseAdaptiveInterpolation=False)
f.newInterpolationTable(0.0, 4.0, 33)
f.setExtrapolationType(E.CONSTANT, E.NONE)
bad = 0
for xi in (np.array([1, 2, 3]), [1, 2, 3], np.array([[1, 5], [-1, 2]]), 2):
    xf = np.asarray(xi, dtype=float)
    for name, got, want, tol in (
            ("evaluate", f(xi), f(xf), 0.0),
            ("derivative", f.derivative(xi), f.derivative(xf), 0.0)):
        got, want = np.asarray(got), np.asarray(want)
        ok = got.shape == want.shape and np.array_equal(got, want)
        truth = np.sin(0.7 * xf) if name == "evaluate" else 0.7 * np.cos(0.7 * xf)
        print("%-10s x=%-22s got %s  float-input result %s" % (name, np.asarray(xi).tolist(), got.tolist(),
                                                             np.round(want, 6).tolist()))
        if not ok:
            bad += 1
print("BROKEN: integer-typed input changes the returned values" if bad else "ok")
sys.exit(1 if bad else 0)
