"""Clean-tree failing input (no change applied), all constructor defaults: 499 evaluations above the table, then one
evaluation 1 ulp below it -> the adaptive update appends 200 points between rmin-1ulp and rmin, binary64 collapses them,
CubicSpline raises, evaluate() raises ValueError although both modes are NONE.  PYTHONPATH=/repo/src python this.py"""
import numpy as np, logging
logging.disable(logging.CRITICAL)
from WallGo import InterpolatableFunction
class Sin(InterpolatableFunction):
    def _functionImplementation(self, x): return np.sin(0.7*np.asarray(x,dtype=float))
f=Sin()   # all defaults: adaptive, threshold 500, 1000 initial points
f.newInterpolationTable(0.1,2.3,1000)
f(np.linspace(2.4,3.0,499))          # 499 direct evaluations above the table
try:
    r=f(np.nextafter(0.1,-np.inf))   # one evaluation 1 ulp below the table -> adaptive update
    print("ok",r,f.numPoints())
except Exception as e: print("RAISED",type(e).__name__,str(e)[:70], "| table still", f.numPoints(), "points; pending", f._directEvaluateCount)
