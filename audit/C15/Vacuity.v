From Coq Require Import Reals Lra Psatz.
From WG Require Import Lib.NumpySem Lib.HydroMatch Lib.HydroMatchTemplate.
From GenC15 Require Import HydroGen C02Core Props_C15.
Local Open Scope R_scope.

(* the two "exact inversion" hypotheses of C15_template_matching_solves_general,
   taken together with the GENERATED t_wFromAlpha, force alpha_+ = alpha_n *)
Lemma exact_inverse_only_at_alN wN Tn alN psiN cb2 cs2 vJT vMinT al :
  0 < wN -> 0 < cs2 ->
  0 < t_wFromAlpha (et wN Tn alN psiN cb2 cs2 vJT vMinT) al ->
  alpha_of wN alN cb2 cs2 al (wN * t_wFromAlpha (et wN Tn alN psiN cb2 cs2 vJT vMinT) al) ->
  al = alN.
Proof.
  intros HwN Hcs Hpos Hal. unfold alpha_of in Hal.
  unfold t_wFromAlpha in *. cbv zeta in *. cbn [et t_alN t_mu t_nu] in *.
  set (A := (1 - 3 * alN) * mu_ cs2 - nu_ cb2) in *.
  set (B := (1 - 3 * al) * mu_ cs2 - nu_ cb2) in *.
  match type of Hpos with context [Rabs A + ?x] => set (d := x) in * end.
  assert (Hd : 0 < d) by (unfold d; lra).
  set (w := sign_R A * sign_R B * (Rabs A + d) / (Rabs B + d)) in *.
  assert (HBd : 0 < Rabs B + d) by (pose proof (Rabs_pos B); lra).
  assert (HAd : 0 < Rabs A + d) by (pose proof (Rabs_pos A); lra).
  assert (E : B * w = A).
  { apply Rmult_eq_reg_r with wN; [|lra]. rewrite <- Hal. ring. }
  assert (W : w * (Rabs B + d) = sign_R A * sign_R B * (Rabs A + d)).
  { unfold w. field. lra. }
  assert (Hmu : 1 < mu_ cs2) by (apply mu_pos; exact Hcs).
  assert (AB : A = B -> al = alN).
  { unfold A, B. intro H. nra. }
  apply AB.
  unfold sign_R in W.
  destruct (Rlt_dec 0 A) as [a|a]; [|destruct (Rlt_dec A 0) as [a'|a']];
  (destruct (Rlt_dec 0 B) as [b|b]; [|destruct (Rlt_dec B 0) as [b'|b']]).
  - rewrite (Rabs_pos_eq A), (Rabs_pos_eq B) in W by lra. nra.
  - rewrite (Rabs_pos_eq A), (Rabs_left B) in W by lra. nra.
  - nra.
  - rewrite (Rabs_left A), (Rabs_pos_eq B) in W by lra. nra.
  - rewrite (Rabs_left A), (Rabs_left B) in W by lra. nra.
  - nra.
  - nra.
  - nra.
  - nra.
Qed.
Print Assumptions exact_inverse_only_at_alN.
