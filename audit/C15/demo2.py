"""C15 demo 2: efficiency factor of the two solvers on a template equation of state whose
enthalpy at Tn is not 1 (TestModelTemplate(..., wn=3.7)); kappa is dimensionless, so it must not
depend on wn and both classes must agree.
Run:  cd <worktree> && PYTHONPATH=<worktree>/src:<worktree> python demo2.py   (exit 0 = property holds)"""
import sys
import warnings
warnings.filterwarnings("ignore")
import WallGo
from tests.test_HydroTemplateModel import TestModelTemplate

bad = False
for wn in (1, 3.7):
    th = TestModelTemplate(0.1, 0.8, 0.28, 0.31, 2.0, 2.0, wn)
    hg = WallGo.Hydrodynamics(th, 10, 0.01, 1e-8, 1e-8)
    ht = WallGo.HydrodynamicsTemplateModel(th, 1e-8, 1e-8)
    for vw in (0.4, 0.6, 0.9):          # deflagration, hybrid, detonation
        kg, kt = float(hg.efficiencyFactor(vw)), float(ht.efficiencyFactor(vw))
        r = abs(kg - kt) / max(kg, kt)
        print("wn=%-4s vw=%.2f kappa general %.6f template %.6f  rel. diff %.2e" % (wn, vw, kg, kt, r))
        bad = bad or r > 1e-2
print("PROPERTY BROKEN" if bad else "ok")
sys.exit(1 if bad else 0)
