"""C15 demo 3: matching of slow deflagrations with both solvers at rtol=atol=1e-10.  On the
unchanged tree the two classes agree to ~1e-9; a tolerance-independent error of the general
solver shows up as a disagreement orders of magnitude above the requested accuracy.
Run:  cd <worktree> && PYTHONPATH=<worktree>/src:<worktree> python demo3.py   (exit 0 = property holds)"""
import sys
import warnings
warnings.filterwarnings("ignore")
import WallGo
from tests.test_HydroTemplateModel import TestModelTemplate

th = TestModelTemplate(0.2, 0.7, 0.25, 0.3, 50.0, 50.0)
hg = WallGo.Hydrodynamics(th, 10, 0.01, 1e-10, 1e-10)
ht = WallGo.HydrodynamicsTemplateModel(th, 1e-10, 1e-10)
bad = False
for vw in (0.01, 0.03, 0.06, 0.1):
    mg = [float(x) for x in hg.findMatching(vw)]
    mt = [float(x) for x in ht.findMatching(vw)]
    r = max(abs(a - b) / max(abs(a), abs(b)) for a, b in zip(mg, mt))
    print("vw=%.2f general %r\n        template %r  rel. diff %.2e (success=%s)" % (vw, mg, mt, r, hg.success))
    bad = bad or r > 1e-6          # 1e4 x the requested tolerance
print("PROPERTY BROKEN" if bad else "ok")
sys.exit(1 if bad else 0)
