"""C15 demo 1: the general solver must return the same matching as the template solver for the
same (model, vw) whatever was asked of the object before.  History: findMatching(vw),
findvwLTE() (returns 1: no LTE deflagration for this strong transition), findMatching(vw).
Run:  cd <worktree> && PYTHONPATH=<worktree>/src:<worktree> python demo1.py   (exit 0 = property holds)"""
import sys
import warnings
warnings.filterwarnings("ignore")
import WallGo
from tests.test_HydroTemplateModel import TestModelTemplate

th = TestModelTemplate(0.32465, 0.883, 0.2213, 0.2649, 0.889, 0.889)
hg = WallGo.Hydrodynamics(th, 10, 0.01, 1e-6, 1e-6)
ht = WallGo.HydrodynamicsTemplateModel(th, 1e-6, 1e-6)
vw = 0.6 * ht.vJ


def rel(a, b):
    return max(abs(float(x) - float(y)) / max(abs(float(x)), abs(float(y))) for x, y in zip(a, b))


mt = ht.findMatching(vw)
before = hg.findMatching(vw)
lte = (hg.findvwLTE(), ht.findvwLTE())
after = hg.findMatching(vw)
print("vw = %.6f, vwLTE general/template = %r" % (vw, lte))
print("template             ", [float(x) for x in mt])
print("general, fresh object", [float(x) for x in before], "rel. diff %.2e" % rel(before, mt))
print("general, after LTE   ", [float(x) for x in after], "rel. diff %.2e" % rel(after, mt))
print("rtol, atol of the general object now:", hg.rtol, hg.atol)
# requested accuracy 1e-6; 1e-4 leaves two orders of magnitude
bad = rel(before, mt) > 1e-4 or rel(after, mt) > 1e-4
print("PROPERTY BROKEN" if bad else "ok")
sys.exit(1 if bad else 0)
