"""
C10 audit demo 2: inside each phase's tabulated range the pressure is minus Veff at the phase's
minimum, and p, dp/dT are continuous across the ends of that range -- also when the user asks the
SAME Thermodynamics object for the critical temperature after the extrapolation has been set up
(the usual order with WallGoManager: setupThermodynamicsHydrodynamics(), then
manager.thermodynamics.findCriticalTemperature(...)).

Exits 0 if the equation of state is consistent, 1 otherwise.
"""
import math
import sys
import numpy as np
from WallGo import Fields, EffectivePotential, VeffDerivativeSettings, Thermodynamics

D, E, lam, T0, g = 0.2, 0.05, 0.1, 80.0, 100.0


class Quartic(EffectivePotential):
    """V = D (T^2-T0^2) phi^2 - E T phi^3 + lam/4 phi^4 - g pi^2/90 T^4 (phases in closed form)"""
    fieldCount = 1
    effectivePotentialError = 1e-15

    def evaluate(self, fields, temperature):
        phi = Fields(fields).getField(0)
        T = np.asarray(temperature)
        return (D * (T**2 - T0**2) * phi**2 - E * T * phi**3 + lam / 4 * phi**4
                - g * math.pi**2 / 90 * T**4)


def phiBroken(T):
    return (3 * E * T + math.sqrt(9 * E**2 * T**2 - 8 * lam * D * (T**2 - T0**2))) / (2 * lam)


def Vex(phi, T):
    return (D * (T**2 - T0**2) * phi**2 - E * T * phi**3 + lam / 4 * phi**4
            - g * math.pi**2 / 90 * T**4)


TcExact = math.sqrt(lam * D * T0**2 / (lam * D - E**2))      # 85.52
Tn = 83.0
V = Quartic()
V.configureDerivatives(VeffDerivativeSettings(temperatureVariationScale=1.0,
                                              fieldValueVariationScale=10.0))
th = Thermodynamics(V, Tn, Fields([phiBroken(Tn)]), Fields([0.0]))
for fe in (th.freeEnergyHigh, th.freeEnergyLow):
    fe.disableAdaptiveInterpolation()
# each phase over its own window, as WallGoManager.initTemperatureRange does
th.freeEnergyHigh.tracePhase(81.0, 100.0, 0.05, rTol=1e-8)
th.freeEnergyLow.tracePhase(60.0, 86.0, 0.05, rTol=1e-8)
th.setExtrapolate()

failures = []


def look(tag):
    for ph, phi, fe in (("High", lambda T: 0.0, th.freeEnergyHigh),
                        ("Low", phiBroken, th.freeEnergyLow)):
        p, dp = getattr(th, "p" + ph + "T"), getattr(th, "dp" + ph + "T")
        lo, hi = fe.minPossibleTemperature[0], fe.maxPossibleTemperature[0]   # the table
        for x in (0.0, 0.1, 0.3, 0.5, 0.7, 0.9, 1.0):
            T = lo + (hi - lo) * x
            got, want = float(p(T)), -Vex(phi(T), T)
            if abs(got - want) > 1e-7 * abs(want):
                failures.append("%s p%sT(%.4f) = %.12g but -Veff(min) = %.12g (rel %.1e), table is "
                                "[%.4f, %.4f]" % (tag, ph, T, got, want, abs(got / want - 1), lo, hi))
        for Tb in (lo, hi):
            d = 1e-9 * Tb
            for nm, f in (("p", p), ("dp", dp)):
                a, b = float(f(Tb - d)), float(f(Tb + d))
                if abs(a - b) > 1e-6 * abs(b):
                    failures.append("%s %s%sT jumps across the end %.4f of its table: %.12g | %.12g"
                                    % (tag, nm, ph, Tb, a, b))
        # wherever the object itself switches branch, p must be continuous as well
        for Tb in (getattr(th, "TMin" + ph + "T"), getattr(th, "TMax" + ph + "T")):
            d = 1e-9 * Tb
            a, b = float(p(Tb - d)), float(p(Tb + d))
            if abs(a - b) > 1e-6 * abs(b):
                failures.append("%s p%sT jumps at its branch point %.4f: %.12g | %.12g"
                                % (tag, ph, Tb, a, b))


look("[after setExtrapolate]")
Tc = th.findCriticalTemperature(dT=0.05, rTol=1e-8)
if abs(Tc - TcExact) > 1e-5 * TcExact:
    failures.append("Tc = %r, exact %r" % (Tc, TcExact))
look("[after findCriticalTemperature]")

for f in failures:
    print("FAIL", f)
print("%d inconsistencies" % len(failures))
sys.exit(1 if failures else 0)
