"""C05 demo 3: Hydrodynamics.findvwLTE on deeply supercooled bag EOS (Tn/Tc ~ 0.3, below the
sampled range Tn/Tc >= 0.45 of tools/props/C05.py).  On the clean tree the 2x2 matching at the
upper bracket end does not converge (hybr status 4/5, residual ~1e3), Hydrodynamics.success
is False and findvwLTE returns the runaway sentinel 1.  Property: an answer strictly between
the sentinels is a velocity in [vMin, vJ] at which the Tn-matching conserves entropy.
Exit 0 = property holds, 1 = broken.   Run: PYTHONPATH=<tree>/src python demo3.py"""
import math
import sys
import warnings
from dataclasses import dataclass

warnings.filterwarnings("ignore")
import WallGo


@dataclass
class FE:
    minPossibleTemperature: list
    maxPossibleTemperature: list


class Bag(WallGo.Thermodynamics):
    def __init__(s, psi, Tn):
        s.psi, s.eps, s.Tnucl = psi, 1.0 - psi, Tn
        s.freeEnergyHigh = FE([0.1, False], [500.0, False])
        s.freeEnergyLow = FE([0.1, False], [500.0, False])
        s.TMinLowT = s.TMinHighT = 0.01
        s.TMaxLowT = s.TMaxHighT = 5.0

    def pHighT(s, T): return T ** 4 - s.eps
    def dpHighT(s, T): return 4 * T ** 3
    def ddpHighT(s, T): return 12 * T ** 2
    def pLowT(s, T): return s.psi * T ** 4
    def dpLowT(s, T): return 4 * s.psi * T ** 3
    def ddpLowT(s, T): return 12 * s.psi * T ** 2


def g(v):
    return 1 / math.sqrt(1 - v * v)


bad = 0
for psi, Tn in ((0.899, 0.301), (0.95, 0.3), (0.9, 0.32)):
    hy = WallGo.Hydrodynamics(Bag(psi, Tn), 10.0, 0.01, 1e-6, 1e-10)
    res = float(hy.findvwLTE())
    msg = "bag psi=%g Tn=%g: findvwLTE=%.8f  vMin=%.8f vJ=%.6f" % (psi, Tn, res, hy.vMin, hy.vJ)
    if 0 < res < 1:
        vp, vm, Tp, Tm = hy.matchDeflagOrHyb(res)
        tn = hy.solveHydroShock(res, vp, Tp)
        msg += "  success=%s  Tn reached by the LTE matching there: %.6g (want %.6g)" % (
            hy.success, tn, Tn)
        if not hy.success or abs(tn / Tn - 1) > 5e-5 or not hy.vMin <= res <= hy.vJ:
            msg += "\n  BROKEN: interior answer that is not a solution (unconverged matching " \
                   "accepted, root finder run on a bracket without sign change)"
            bad = 1
    print(msg)
sys.exit(bad)
