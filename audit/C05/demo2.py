"""C05 demo 2: WallGoManager.wallSpeedLTE() with the manager's own construction of the
Hydrodynamics object (WallGoManager._initHydrodynamics, default Config) on bag equations of
state.  Property: an interior answer conserves the entropy flux at the Tn-matching; the
runaway sentinel 1 requires the entropy mismatch to keep one sign over the window.  The
judge is an independent solver built with the documented defaults (tmax 10, tmin 0.01,
rtol 1e-6, atol 1e-10).  Exit 0 = property holds, 1 = broken.
Run: PYTHONPATH=<tree>/src python demo2.py"""
import logging
import math
import sys
import warnings
from dataclasses import dataclass

warnings.filterwarnings("ignore")
import WallGo


@dataclass
class FE:
    minPossibleTemperature: list
    maxPossibleTemperature: list


class Bag(WallGo.Thermodynamics):
    def __init__(s, psi, Tn):
        s.psi, s.eps, s.Tnucl = psi, 1.0 - psi, Tn
        s.freeEnergyHigh = FE([0.1, False], [500.0, False])
        s.freeEnergyLow = FE([0.1, False], [500.0, False])
        s.TMinLowT = s.TMinHighT = 0.01
        s.TMaxLowT = s.TMaxHighT = 5.0

    def pHighT(s, T): return T ** 4 - s.eps
    def dpHighT(s, T): return 4 * T ** 3
    def ddpHighT(s, T): return 12 * T ** 2
    def pLowT(s, T): return s.psi * T ** 4
    def dpLowT(s, T): return 4 * s.psi * T ** 3
    def ddpLowT(s, T): return 12 * s.psi * T ** 2


def g(v):
    return 1 / math.sqrt(1 - v * v)


def mismatch(hy, vw):
    vp, vm, Tp, Tm = hy.findMatching(vw)
    return Tp * g(vp) / (Tm * g(vm)) - 1


bad = 0
for psi, Tn in ((0.6, 0.6), (0.8, 0.8)):
    th = Bag(psi, Tn)
    m = WallGo.WallGoManager()
    m.setVerbosity(logging.ERROR)
    m._initHydrodynamics(th)          # what setupThermodynamicsHydrodynamics does last
    try:
        res = float(m.wallSpeedLTE())
    except Exception as ex:           # noqa
        print("bag psi=%g Tn=%g: wallSpeedLTE raised %r" % (psi, Tn, ex))
        bad = 1
        continue
    ref = WallGo.Hydrodynamics(th, 10.0, 0.01, 1e-6, 1e-10)
    lo, hi = max(ref.vMin + 1e-2, 0.05), ref.vJ - 1e-2
    Elo, Ehi = mismatch(ref, lo), mismatch(ref, hi)
    print("bag psi=%g Tn=%g: manager.wallSpeedLTE()=%.6f (TMinHydro=%.3g TMaxHydro=%.3g)  "
          "mismatch(%.4f)=%+.3e mismatch(%.4f)=%+.3e" % (
              psi, Tn, res, m.hydrodynamics.TMinHydro, m.hydrodynamics.TMaxHydro, lo, Elo,
              hi, Ehi))
    if res in (0.0, 1.0) and Elo > 3e-4 and Ehi < -3e-4:
        print("  BROKEN: sentinel %g although the entropy mismatch changes sign inside the "
              "deflagration/hybrid window" % res)
        bad = 1
    if 0 < res < 1 and abs(mismatch(ref, res)) > 5e-5:
        print("  BROKEN: entropy not conserved at the returned velocity")
        bad = 1
sys.exit(bad)
