"""C05 demo 1: Hydrodynamics.findvwLTE on a strongly supercooled bag EOS (psi=0.6, Tn/Tc=0.6),
package-default tolerances (rtol 1e-6, atol 1e-10).  Property: if the static sentinel 0 is
returned, the entropy mismatch T+g+/(T-g-)-1 of the Tn-matching must already be negative at the
smallest allowed velocity.  Exit 0 = property holds, 1 = broken.
Run: PYTHONPATH=<tree>/src python demo1.py"""
import math
import sys
import warnings
from dataclasses import dataclass

warnings.filterwarnings("ignore")
import WallGo


@dataclass
class FE:
    minPossibleTemperature: list
    maxPossibleTemperature: list


class Bag(WallGo.Thermodynamics):
    def __init__(s, psi, Tn):
        s.psi, s.eps, s.Tnucl = psi, 1.0 - psi, Tn
        s.freeEnergyHigh = FE([0.1, False], [500.0, False])
        s.freeEnergyLow = FE([0.1, False], [500.0, False])
        s.TMinLowT = s.TMinHighT = 0.01
        s.TMaxLowT = s.TMaxHighT = 5.0

    def pHighT(s, T): return T ** 4 - s.eps
    def dpHighT(s, T): return 4 * T ** 3
    def ddpHighT(s, T): return 12 * T ** 2
    def pLowT(s, T): return s.psi * T ** 4
    def dpLowT(s, T): return 4 * s.psi * T ** 3
    def ddpLowT(s, T): return 12 * s.psi * T ** 2


def g(v):
    return 1 / math.sqrt(1 - v * v)


def mismatch(hy, vw):
    vp, vm, Tp, Tm = hy.findMatching(vw)
    return Tp * g(vp) / (Tm * g(vm)) - 1


bad = 0
for psi, Tn in ((0.6, 0.6), (0.4, 0.6), (0.2, 0.8)):
    hy = WallGo.Hydrodynamics(Bag(psi, Tn), 10.0, 0.01, 1e-6, 1e-10)
    res = hy.findvwLTE()
    lo, hi = max(hy.vMin + 1e-2, 0.05), hy.vJ - 1e-2
    Elo, Ehi = mismatch(hy, lo), mismatch(hy, hi)
    print("bag psi=%g Tn=%g: findvwLTE=%.6f  mismatch(%.4f)=%+.3e  mismatch(%.4f)=%+.3e" % (
        psi, Tn, res, lo, Elo, hi, Ehi))
    if res == 0 and Elo > 3e-4:
        print("  BROKEN: static sentinel although the mismatch is positive at the smallest "
              "allowed velocity (and changes sign in the window)")
        bad = 1
    if 0 < res < 1 and abs(mismatch(hy, res)) > 5e-5:
        print("  BROKEN: entropy not conserved at the returned velocity")
        bad = 1
sys.exit(bad)
