"""C20 audit, change 2: heavy particles beyond the upper end of the shipped tables, on the call path
of the shipped example model (EffectivePotentialNoResum(useDefaultInterpolation=True), as in
Models/InertDoubletModel).

Property clause: "is Boltzmann-suppressed for heavy ones", quantifier "[-20, 1000] and beyond both ends".
Exit 0 when |V_T| <= 1e-9 * n T^4/(2 pi^2) for m^2/T^2 in {1200, 2500, 1e4, 1e6} (the exact value is
below 4e-13 there), exit 1 otherwise.
"""
import math
import sys
import warnings

import numpy as np

warnings.simplefilter("ignore")
from WallGo.PotentialTools import EffectivePotentialNoResum, EImaginaryOption


class Pot(EffectivePotentialNoResum):
    fieldCount = 1

    def evaluate(self, fields, temperature):
        raise NotImplementedError

    def bosonInformation(self, fields, temperature):
        raise NotImplementedError

    def fermionInformation(self, fields, temperature):
        raise NotImplementedError


pot = Pot(useDefaultInterpolation=True, imaginaryOption=EImaginaryOption.PRINCIPAL_PART)
bad = 0
T = 10.0
for x in (1200.0, 2500.0, 1.0e4, 1.0e6):
    bos = (np.array([x * T * T]), np.array([6.0]), np.full(1, 1.5), np.full(1, 1.0))
    fer = (np.array([x * T * T]), np.array([12.0]), np.full(1, 1.5), np.full(1, 1.0))
    v = float(pot.potentialOneLoopThermal(bos, fer, T)) / (18.0 * T ** 4 / (2 * math.pi ** 2))
    exact = math.sqrt(math.pi / 2) * x ** 0.75 * math.exp(-math.sqrt(x))
    print("m/T = %7.1f: V_T / (n T^4/2pi^2) = %+.3e   (leading asymptotics of |J|: %.1e)" % (
        math.sqrt(x), v, exact))
    if not abs(v) <= 1e-9:
        bad += 1
print("BROKEN: heavy species are not Boltzmann-suppressed" if bad else "ok")
sys.exit(1 if bad else 0)
