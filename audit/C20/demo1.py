"""C20 audit, change 1: thermal integrals for tiny negative arguments.

Property clauses exercised: "return, for every real argument including negative ones, the real part
of the defining integral" and "depends continuously on the masses".
Exit 0 when J_b, J_f at x = -5e-4 agree with an independent quadrature of the complex logarithm to
1e-6 and the thermal potential has no jump at m^2/T^2 = -1e-3; exit 1 otherwise.
"""
import math
import sys
import warnings

import numpy as np
import scipy.integrate

warnings.simplefilter("ignore")
from WallGo.PotentialTools import (EffectivePotentialNoResum, EImaginaryOption, Integrals,
                                   JbIntegral, JfIntegral)


def ref(kind, x):
    """Re, Im of (+-) int_0^inf y^2 Log(1 -+ exp(-sqrt(y^2+x))) dy, principal logarithm, x < 0
    small (no interior branch point)"""
    sgn, pref = (-1.0, 1.0) if kind == "b" else (1.0, -1.0)
    c = math.sqrt(-x)
    q = lambda f, a, b: scipy.integrate.quad(f, a, b, limit=400, epsabs=1e-13, epsrel=1e-13)[0]
    z = lambda y: 1 + sgn * np.exp(-1j * math.sqrt(max(-y * y - x, 0.0)))
    re = q(lambda y: pref * y * y * math.log(abs(z(y))), 0, c) + q(
        lambda y: pref * y * y * math.log1p(sgn * math.exp(-math.sqrt(max(y * y + x, 0.0)))), c, np.inf)
    im = q(lambda y: pref * y * y * float(np.angle(z(y))), 0, c)
    return re, im


bad = 0
for kind, obj in (("b", JbIntegral(bUseAdaptiveInterpolation=False)),
                  ("f", JfIntegral(bUseAdaptiveInterpolation=False))):
    for x in (-5e-4, -2e-4, -9e-4):
        got = np.asarray(obj(x), dtype=float).ravel()
        want = ref(kind, x)
        err = abs(got[0] - want[0])
        print("J%s(%g): Re %.10f  reference %.10f  |diff| %.2e" % (kind, x, got[0], want[0], err))
        if err > 1e-6:
            bad += 1


class Pot(EffectivePotentialNoResum):
    fieldCount = 1

    def evaluate(self, fields, temperature):
        raise NotImplementedError

    def bosonInformation(self, fields, temperature):
        raise NotImplementedError

    def fermionInformation(self, fields, temperature):
        raise NotImplementedError


pot = Pot(integrals=Integrals(), imaginaryOption=EImaginaryOption.PRINCIPAL_PART)
T = 100.0


def V(x):
    bos = (np.array([x * T * T]), np.array([3.0]), np.full(1, 1.5), np.full(1, 1.0))
    fer = (np.array([50.0]), np.array([0.0]), np.full(1, 1.5), np.full(1, 1.0))
    return float(pot.potentialOneLoopThermal(bos, fer, T))


# three Goldstone-like modes whose m^2 crosses -1e-3 T^2: step of 2e-9 in m^2/T^2
x0, d = -1e-3, 1e-9
jump = abs(V(x0 + d) - V(x0 - d)) / (T ** 4 / (2 * math.pi ** 2))
print("V_T jump across m^2/T^2 = %g over a step of %g: %.3e (in units of T^4/2pi^2; smooth: ~5e-9)"
      % (x0, 2 * d, jump))
if jump > 1e-6:
    bad += 1
print("BROKEN" if bad else "ok")
sys.exit(1 if bad else 0)
