"""C20 audit, change 3: a localised corruption of one row of a shipped table.

Property clause: "The interpolation tables shipped with the package reproduce those integrals ... over
their whole range".  Every node of the default tables with 1 <= x <= 10 is compared with the direct
quadrature of the same package (relative 1e-6, the tolerance of the package's own table tests; the
clean tables agree to ~1e-9).  Exit 0 if all agree, 1 otherwise.
"""
import sys
import warnings

import numpy as np

warnings.simplefilter("ignore")
from WallGo.PotentialTools import JbIntegral, JfIntegral, defaultIntegrals

bad = 0
for tag, tab, direct in (("Jb", defaultIntegrals.Jb, JbIntegral(bUseAdaptiveInterpolation=False)),
                         ("Jf", defaultIntegrals.Jf, JfIntegral(bUseAdaptiveInterpolation=False))):
    xs = np.asarray(tab._interpolationPoints, dtype=float)
    worst = (0.0, None)
    for i in np.nonzero((xs >= 1.0) & (xs <= 10.0))[0]:
        x = float(xs[i])
        t = float(np.asarray(tab(x)).ravel()[0])
        d = float(np.asarray(direct(x)).ravel()[0])
        rel = abs(t - d) / abs(d)
        if rel > worst[0]:
            worst = (rel, (int(i), x, t, d))
    print("%s: worst node in [1, 10]: rel. error %.2e at row %s" % (tag, worst[0], worst[1]))
    if worst[0] > 1e-6:
        bad += 1
print("BROKEN: a table node does not reproduce the integral" if bad else "ok")
sys.exit(1 if bad else 0)
