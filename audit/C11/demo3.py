"""C11 demo 3: non-paranoid tracing of a two-field phase below its (second-order) spinodal.

Property: every tabulated point is a local minimum (positive-definite Hessian); if the minimum
ceases to exist inside the requested range the table stops there and the end is flagged.
Phase B = (0, b) of the Z2xZ2 model is a minimum only for T > TsB = 80; below it (0, b) is still
a critical point, but a saddle.  Exit 0 if the property holds, 1 otherwise.
Run: PYTHONPATH=<tree>/src python demo3.py
"""
import logging
import math
import sys

import numpy as np

import WallGo
from WallGo import EffectivePotential, Fields
from WallGo.freeEnergy import FreeEnergy

logging.getLogger().setLevel(logging.CRITICAL)
theta, ca, Ta, la, cb, Tb, lb, lab, g = 0.3, 0.3, 120.0, 0.12, 0.1, 160.0, 0.2, 0.5, 10.0
c, s = math.cos(theta), math.sin(theta)


class Pot(EffectivePotential):
    fieldCount = 2
    effectivePotentialError = 1e-15

    def evaluate(self, fields, temperature):
        p = np.asarray(fields)
        a = c * p[..., 0] + s * p[..., 1]
        b = -s * p[..., 0] + c * p[..., 1]
        T = np.asarray(temperature)
        return np.asarray(-g * T ** 4 + 0.5 * ca * (T ** 2 - Ta ** 2) * a ** 2 + 0.25 * la * a ** 4
                          + 0.5 * cb * (T ** 2 - Tb ** 2) * b ** 2 + 0.25 * lb * b ** 4
                          + 0.25 * lab * a ** 2 * b ** 2)


pot = Pot()
pot.configureDerivatives(WallGo.VeffDerivativeSettings(
    temperatureVariationScale=1.0, fieldValueVariationScale=10.0))
k = lab * cb / (2 * lb)
TsB = math.sqrt((ca * Ta ** 2 - k * Tb ** 2) / (ca - k))            # 80
R = np.array([[c, -s], [s, c]])
locB = lambda T: R @ np.array([0.0, math.sqrt(max(-cb * (T ** 2 - Tb ** 2), 0.0) / lb)])


def hess(x, T):
    a, b = R.T @ np.asarray(x, dtype=float)
    h = np.array([[ca * (T ** 2 - Ta ** 2) + 3 * la * a ** 2 + 0.5 * lab * b ** 2, lab * a * b],
                  [lab * a * b, cb * (T ** 2 - Tb ** 2) + 3 * lb * b ** 2 + 0.5 * lab * a ** 2]])
    return R @ h @ R.T


Tstart, TMin, TMax, dT = 104.0, 76.4, 115.2, 0.48
fe = FreeEnergy(pot, Tstart, Fields(locB(Tstart)))
fe.tracePhase(TMin, TMax, dT, rTol=1e-6, spinodal=True, paranoid=False)
T = np.asarray(fe._interpolationPoints, dtype=float)
X = np.asarray(fe._interpolationValues, dtype=float)[:, :2]
emin = np.array([np.linalg.eigvalsh(hess(x, t))[0] for x, t in zip(X, T)])
print("spinodal %.4f; table [%.4f, %.4f]; min=%r" % (TsB, T.min(), T.max(),
                                                    fe.minPossibleTemperature))
bad = False
if np.any(emin < -1e-6 * Ta ** 2):
    j = int(np.argmin(emin))
    print("BROKEN: %d tabulated points are not minima, e.g. T=%.4f fields=%s smallest Hessian "
          "eigenvalue %.4g" % (int(np.sum(emin < -1e-6 * Ta ** 2)), T[j], X[j], emin[j]))
    bad = True
if not fe.minPossibleTemperature[1]:
    print("BROKEN: lower end not flagged although the phase ends at %.4f > TMin" % TsB)
    bad = True
if not bad:
    print("OK: all tabulated points are minima, the lower end is flagged")
sys.exit(1 if bad else 0)
