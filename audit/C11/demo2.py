"""C11 demo 2: a phase that exists on the whole requested range, traced with a fine step.

Property: if the minimum exists on the whole requested range the table covers it (up to the
2 dT margin) and the end is NOT flagged as a genuine disappearance.
Symmetric phase phi=0 of V = D (T^2-T0^2) phi^2 - E T phi^3 + lam/4 phi^4 - g pi^2/90 T^4:
a minimum for every T > T0 = 80.  Exit 0 if the property holds, 1 otherwise.
Run: PYTHONPATH=<tree>/src python demo2.py
"""
import logging
import math
import sys

import numpy as np

import WallGo
from WallGo import EffectivePotential, Fields
from WallGo.freeEnergy import FreeEnergy

logging.getLogger().setLevel(logging.CRITICAL)
D, E, lam, T0, g = 0.2, 0.05, 0.1, 80.0, 100.0


class Pot(EffectivePotential):
    fieldCount = 1
    effectivePotentialError = 1e-15

    def evaluate(self, fields, temperature):
        p = np.asarray(fields)[..., 0]
        T = np.asarray(temperature)
        return np.asarray(D * (T ** 2 - T0 ** 2) * p ** 2 - E * T * p ** 3 + 0.25 * lam * p ** 4
                          - g * math.pi ** 2 / 90 * T ** 4)


pot = Pot()
pot.configureDerivatives(WallGo.VeffDerivativeSettings(
    temperatureVariationScale=1.0, fieldValueVariationScale=10.0))

Tstart, TMin, TMax, dT = 100.0, 90.0, 172.0, 0.016        # 4500 steps of size dT upwards
fe = FreeEnergy(pot, Tstart, Fields([0.0]))
fe.tracePhase(TMin, TMax, dT, rTol=1e-6, spinodal=True, paranoid=False)
T = np.asarray(fe._interpolationPoints, dtype=float)
print("requested [%g, %g]; table [%.6f, %.6f] (%d nodes); min=%r max=%r" % (
    TMin, TMax, T.min(), T.max(), len(T), fe.minPossibleTemperature, fe.maxPossibleTemperature))
bad = False
if abs(T.max() - TMax) > 1e-9 * TMax or abs(T.min() - TMin) > 1e-9 * TMax:
    print("BROKEN: the phase exists on the whole requested range but the table does not cover it")
    bad = True
if fe.maxPossibleTemperature[1] or fe.minPossibleTemperature[1]:
    print("BROKEN: an end is flagged as a genuine disappearance of the phase; the symmetric "
          "phase is a minimum for every T > %g" % T0)
    bad = True
try:
    fe(170.0)
except Exception as ex:
    print("BROKEN: FreeEnergy(170) refuses (%s) inside the requested range" % type(ex).__name__)
    bad = True
if not bad:
    print("OK: range covered, ends not flagged")
sys.exit(1 if bad else 0)
