"""C11 demo 1: paranoid tracing of a two-field phase past its spinodal.

Property: if the minimum ceases to exist inside the requested range the table stops before
that point and the end is flagged.  Exit 0 if that holds, 1 if the table continues beyond the
spinodal (on another minimum) / the end is not flagged.
Run: PYTHONPATH=<tree>/src python demo1.py
"""
import logging
import math
import sys

import numpy as np

import WallGo
from WallGo import EffectivePotential, Fields
from WallGo.freeEnergy import FreeEnergy

logging.getLogger().setLevel(logging.CRITICAL)

# Z2 x Z2 two-field quartic, field basis rotated by theta w.r.t. the mass basis
theta, ca, Ta, la, cb, Tb, lb, lab, g = -1.0, 0.3, 120.0, 0.12, 0.1, 160.0, 0.2, 0.5, 10.0
c, s = math.cos(theta), math.sin(theta)


class Pot(EffectivePotential):
    fieldCount = 2
    effectivePotentialError = 1e-15

    def evaluate(self, fields, temperature):
        p = np.asarray(fields)
        a = c * p[..., 0] + s * p[..., 1]
        b = -s * p[..., 0] + c * p[..., 1]
        T = np.asarray(temperature)
        return np.asarray(-g * T ** 4 + 0.5 * ca * (T ** 2 - Ta ** 2) * a ** 2 + 0.25 * la * a ** 4
                          + 0.5 * cb * (T ** 2 - Tb ** 2) * b ** 2 + 0.25 * lb * b ** 4
                          + 0.25 * lab * a ** 2 * b ** 2)


pot = Pot()
pot.configureDerivatives(WallGo.VeffDerivativeSettings(
    temperatureVariationScale=1.0, fieldValueVariationScale=10.0))

# phase A = (sqrt(-mua2/la), 0): a minimum for T < TsA (closed form), a saddle beyond
kk = lab * ca / (2 * la)
TsA = math.sqrt((cb * Tb ** 2 - kk * Ta ** 2) / (cb - kk))          # 110.75498...
R = np.array([[c, -s], [s, c]])
locA = lambda T: R @ np.array([math.sqrt(max(-ca * (T ** 2 - Ta ** 2), 0.0) / la), 0.0])

Tstart, TMin, TMax, dT = 88.60398787112614, 33.2264954516723, 134.75498483890766, 0.24
fe = FreeEnergy(pot, Tstart, Fields(locA(Tstart)))
fe.tracePhase(TMin, TMax, dT, rTol=1e-6, spinodal=True, paranoid=True)
T = np.asarray(fe._interpolationPoints, dtype=float)
beyond = T[T > TsA + 0.05]
print("spinodal of the traced phase: %.6f; table ends at %.6f; maxPossibleTemperature=%r" % (
    TsA, T.max(), fe.maxPossibleTemperature))
bad = False
if len(beyond):
    k = int(np.searchsorted(T, beyond[len(beyond) // 2]))
    print("BROKEN: %d tabulated points beyond the spinodal, e.g. T=%.4f fields=%s (phase A would "
          "be %s, a saddle)" % (len(beyond), T[k], fe._interpolationValues[k][:2], locA(T[k])))
    bad = True
if not fe.maxPossibleTemperature[1]:
    print("BROKEN: the upper end is not flagged although the phase ends inside the request")
    bad = True
if not bad:
    print("OK: table stops at the spinodal and the end is flagged")
sys.exit(1 if bad else 0)
