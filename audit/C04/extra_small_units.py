import sys, os, math
sys.path.insert(0, "/verif/tools"); sys.path.insert(0, "/verif/tools/props")
import vlib
import importlib
C04 = importlib.import_module("props.C04")
import numpy as np
for u in (1e-4, 1e-6, 1e-8):
    name = "q_%g" % u
    C04.MODELS[name] = dict(kind="quartic", unit=u, Tn=83.0 * u)
    try:
        veff, thermo, hydro, grid, eom, TN, nf = C04.build_model(name)
    except Exception as ex:
        print(name, "build failed", repr(ex)[:200]); continue
    print(name, "vJ", hydro.vJ, "vMin", hydro.vMin)
    for vw in (0.3, 0.5, 0.58, 0.7):
        for errTol in (1e-6,):
            try:
                res = C04.run_profile(name, vw, [5.0, 5.0], [0.0, 0.1], "none", 1, 0.0, errTol=errTol)
            except Exception as ex:
                print(" vw", vw, "raised", repr(ex)[:200]); continue
            if res.get("nohydro"):
                print(" vw", vw, "nohydro", res.get("why")); continue
            pts = res["points"]
            r33 = max(abs(d["r33"]) for d in pts); r30 = max(abs(d["r30"]) for d in pts)
            T, v = res["T"], res["v"]
            eb = max(abs(T[0] / res["Tm"] - 1), abs(v[0] + res["vm"])); ef = max(abs(T[-1] / res["Tp"] - 1), abs(v[-1] + res["vp"]))
            paths = {}
            for d in pts: paths[d["path"]] = paths.get(d["path"], 0) + 1
            print(" vw", vw, res["branch"], "succ", res["success"], "r30 %.1e r33 %.1e asym back %.1e front %.1e" % (r30, r33, eb, ef), paths, "(Tp-Tn)=%.2e" % (res["Tp"] - res["Tn"]))
