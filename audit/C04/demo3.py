"""
C04 audit demo 3 -- far behind / in front of the wall the plasma profile handed back by
wallPressure() must tend to the hydrodynamic matching values (T-, -v-) and (T+, -v+), on the
detonation branch as well as on the deflagration branch (LTE run).

Analytic two-field model. Detonations go through the improved-convergence iteration
(EOM._getNextPressure); a deflagration is run both with the fast iteration and with
forceImproveConvergence=True. Tested on the returned BoltzmannBackground: first/last entry
are (T-, T+); first/last interior grid point within 1e-3 of (T-, -v-) / (T+, -v+).
Exit 0 = fine (unchanged tree: ~1e-7), 1 = violated.
"""
import sys, time
import numpy as np
import WallGo
from WallGo import Fields, EffectivePotential
from WallGo.containers import BoltzmannDeltas, WallParams
from WallGo.polynomial import Polynomial


class Veff(EffectivePotential):
    """xSM-like two-field potential, high-T expansion, fully analytic in T."""
    fieldCount = 2
    effectivePotentialError = 1e-15
    lHH = 0.12910272655165576
    lSS, lHS = 1.0, 0.9
    cH, cS = 0.4338, 0.4
    aRad = 107.75 * np.pi**2 / 90

    def __init__(self, unit=1.0):
        self.muHsq = -7812.5 * unit**2
        self.muSsq = -12832.2 * unit**2

    def evaluate(self, fields, temperature):
        fields = Fields(fields)
        return self.exactV(fields.getField(0), fields.getField(1), temperature)

    def exactV(self, v, x, T):
        return (0.5 * (self.muHsq + self.cH * T**2) * v**2 + 0.25 * self.lHH * v**4
                + 0.5 * (self.muSsq + self.cS * T**2) * x**2 + 0.25 * self.lSS * x**4
                + 0.25 * self.lHS * v**2 * x**2 - self.aRad * T**4)

    def exactW(self, v, x, T):
        return -T * (self.cH * T * v**2 + self.cS * T * x**2 - 4 * self.aRad * T**3)


def build(unit=1.0, M=22, N=11, **eomKwargs):
    u = unit
    Tn = 100.0 * u
    veff = Veff(u)
    veff.configureDerivatives(WallGo.VeffDerivativeSettings(10.0 * u, 50.0 * u))
    thermo = WallGo.Thermodynamics(veff, Tn, Fields([195.0 * u, 0.0]), Fields([0.0, 105.0 * u]))
    thermo.freeEnergyHigh.disableAdaptiveInterpolation()
    thermo.freeEnergyLow.disableAdaptiveInterpolation()
    thermo.freeEnergyHigh.tracePhase(75.0 * u, 125.0 * u, 0.1 * u)
    thermo.freeEnergyLow.tracePhase(75.0 * u, 125.0 * u, 0.1 * u)
    thermo.setExtrapolate()
    hydro = WallGo.Hydrodynamics(thermo, 10.0, 0.01, 1e-6, 1e-6)
    grid = WallGo.grid3Scales.Grid3Scales(M, N, 0.2 / u, 0.2 / u, 0.05 / u, Tn)
    bs = WallGo.BoltzmannSolver(grid, basisM="Cardinal", basisN="Chebyshev")
    top = WallGo.Particle("top", 0, lambda f: 0.5 * 0.99**2 * f.getField(0) ** 2,
                          lambda f: np.transpose([0.99**2 * f.getField(0), 0 * f.getField(1)]),
                          "Fermion", 12)
    bs.updateParticleList([top])
    eom = WallGo.EOM(bs, thermo, hydro, grid, 2, 0.0, (0.1, 100.0), (-10.0, 10.0), **eomKwargs)
    return veff, thermo, hydro, grid, bs, eom


def main():
    bad = []
    for force, vws in ((False, (0.45, 0.70, 0.80, 0.92)), (True, (0.45,))):
        veff, thermo, hydro, grid, bs, eom = build(errTol=1e-5, forceImproveConvergence=force)
        for vw in vws:
            guess = WallParams(widths=np.array([0.05, 0.05]), offsets=np.array([0.0, 0.0]))
            P, wp, bres, bg, hres = eom.wallPressure(vw, guess)
            vp, vm, Tp, Tm = hydro.findMatching(vw)
            T, v = bg.temperatureProfile, bg.velocityProfile
            ends = max(abs(T[0] / Tm - 1), abs(T[-1] / Tp - 1))
            back = max(abs(T[1] / Tm - 1), abs(v[1] + vm))
            front = max(abs(T[-2] / Tp - 1), abs(v[-2] + vp))
            ok = eom.successTemperatureProfile and ends < 1e-12 and back < 1e-3 and front < 1e-3
            print("%s vw=%.2f (%s, improved iteration %s) success=%s: behind (T,v)=(%.4f,%.4f) want "
                  "(%.4f,%.4f); in front (%.4f,%.4f) want (%.4f,%.4f); end entries off by %.1e" % (
                      "ok  " if ok else "FAIL", vw, "detonation" if vw > hydro.vJ else "deflagration",
                      force or vw > hydro.vJ, eom.successTemperatureProfile, T[1], v[1], Tm, -vm,
                      T[-2], v[-2], Tp, -vp, ends))
            if not ok:
                bad.append((vw, force, back, front, ends))
    if bad:
        print("PROPERTY C04 VIOLATED: profile does not tend to the matching values:", bad)
        return 1
    print("all fine")
    return 0


if __name__ == "__main__":
    sys.exit(main())
