"""
C04 audit demo 2 -- one EOM object, one grid, two successive calls of findPlasmaProfile with
DIFFERENT supplied out-of-equilibrium moments (what wallPressure() does on every iteration:
_updateGrid once, then findPlasmaProfile with the Deltas of the previous Boltzmann solve).

Analytic two-field model, two deflagrations and a detonation. Call 1: zero moments. Call 2 (same
grid, same wall): moments of relative size ~1e-2. After each call, at every grid point where
success is reported, T30 and T33 INCLUDING the supplied moments (independent Eq.(14) of
arXiv:2204.13120) must reproduce c1, c2.
Exit 0 = conserved (unchanged tree ~1e-12 / <1e-5), 1 = violated.
"""
import sys, time
import numpy as np
import WallGo
from WallGo import Fields, EffectivePotential
from WallGo.containers import BoltzmannDeltas, WallParams
from WallGo.polynomial import Polynomial


class Veff(EffectivePotential):
    """xSM-like two-field potential, high-T expansion, fully analytic in T."""
    fieldCount = 2
    effectivePotentialError = 1e-15
    lHH = 0.12910272655165576
    lSS, lHS = 1.0, 0.9
    cH, cS = 0.4338, 0.4
    aRad = 107.75 * np.pi**2 / 90

    def __init__(self, unit=1.0):
        self.muHsq = -7812.5 * unit**2
        self.muSsq = -12832.2 * unit**2

    def evaluate(self, fields, temperature):
        fields = Fields(fields)
        return self.exactV(fields.getField(0), fields.getField(1), temperature)

    def exactV(self, v, x, T):
        return (0.5 * (self.muHsq + self.cH * T**2) * v**2 + 0.25 * self.lHH * v**4
                + 0.5 * (self.muSsq + self.cS * T**2) * x**2 + 0.25 * self.lSS * x**4
                + 0.25 * self.lHS * v**2 * x**2 - self.aRad * T**4)

    def exactW(self, v, x, T):
        return -T * (self.cH * T * v**2 + self.cS * T * x**2 - 4 * self.aRad * T**3)


def build(unit=1.0, M=22, N=11, **eomKwargs):
    u = unit
    Tn = 100.0 * u
    veff = Veff(u)
    veff.configureDerivatives(WallGo.VeffDerivativeSettings(10.0 * u, 50.0 * u))
    thermo = WallGo.Thermodynamics(veff, Tn, Fields([195.0 * u, 0.0]), Fields([0.0, 105.0 * u]))
    thermo.freeEnergyHigh.disableAdaptiveInterpolation()
    thermo.freeEnergyLow.disableAdaptiveInterpolation()
    thermo.freeEnergyHigh.tracePhase(75.0 * u, 125.0 * u, 0.1 * u)
    thermo.freeEnergyLow.tracePhase(75.0 * u, 125.0 * u, 0.1 * u)
    thermo.setExtrapolate()
    hydro = WallGo.Hydrodynamics(thermo, 10.0, 0.01, 1e-6, 1e-6)
    grid = WallGo.grid3Scales.Grid3Scales(M, N, 0.2 / u, 0.2 / u, 0.05 / u, Tn)
    bs = WallGo.BoltzmannSolver(grid, basisM="Cardinal", basisN="Chebyshev")
    top = WallGo.Particle("top", 0, lambda f: 0.5 * 0.99**2 * f.getField(0) ** 2,
                          lambda f: np.transpose([0.99**2 * f.getField(0), 0 * f.getField(1)]),
                          "Fermion", 12)
    bs.updateParticleList([top])
    eom = WallGo.EOM(bs, thermo, hydro, grid, 2, 0.0, (0.1, 100.0), (-10.0, 10.0), **eomKwargs)
    return veff, thermo, hydro, grid, bs, eom


def refTout(eom, index, fp, vmid, D):
    g = 1.0 / np.sqrt(1.0 - vmid**2)
    u0, u3 = g, g * vmid
    ub0, ub3 = u3, u0
    T30 = T33 = 0.0
    for i, p in enumerate(eom.particles):
        d00, d02 = D.Delta00.coefficients[i, index], D.Delta02.coefficients[i, index]
        d20, d11 = D.Delta20.coefficients[i, index], D.Delta11.coefficients[i, index]
        m2 = float(np.asarray(p.msqVacuum(fp)).ravel()[0])
        A = 3 * d20 - d02 - m2 * d00
        B = 3 * d02 - d20 + m2 * d00
        T30 += p.totalDOFs * 0.5 * (A * u3 * u0 + B * ub3 * ub0 + 2 * d11 * (u3 * ub0 + ub3 * u0))
        T33 += p.totalDOFs * (0.5 * (A * u3 * u3 + B * ub3 * ub3 + 4 * d11 * u3 * ub3)
                              - 0.5 * (m2 * d00 + d02 - d20))
    return T30, T33


def residuals(veff, eom, c1, c2, vmid, fields, dPhidz, D, T, v):
    r30 = r33 = size = 0.0
    for k in range(len(T)):
        fp = fields.getFieldPoint(k)
        h, s = float(fields[k, 0]), float(fields[k, 1])
        w = veff.exactW(h, s, T[k])
        o30, o33 = refTout(eom, k, fp, vmid, D)
        g2 = 1.0 / (1.0 - v[k] ** 2)
        r30 = max(r30, abs(w * g2 * v[k] + o30 - c1) / abs(c1))
        r33 = max(r33, abs(0.5 * float(np.sum(np.asarray(dPhidz[k]) ** 2)) - veff.exactV(h, s, T[k])
                           + w * g2 * v[k] ** 2 + o33 - c2) / abs(c2))
        size = max(size, abs(o30 / c1), abs(o33 / c2))
    return r30, r33, size


def deltas(eom, grid, amp, seed):
    rng = np.random.default_rng(seed)
    n, m = len(eom.particles), grid.M - 1
    prof = np.exp(-(grid.xiValues * 100.0 / 20.0) ** 2)
    def poly(scale):
        return Polynomial(amp * scale * rng.uniform(-1, 1, (n, 1)) * prof[None, :]
                          * (1 + 0.3 * rng.uniform(-1, 1, (n, m))), grid,
                          direction=("Array", "z"), basis=("Array", "Cardinal"))
    return BoltzmannDeltas(Delta00=poly(1.0), Delta02=poly(1e4), Delta20=poly(1e4), Delta11=poly(1e4))


def main():
    veff, thermo, hydro, grid, bs, eom = build(includeOffEq=True, errTol=1e-6)
    bad = []
    # (no hybrid: with moments a hybrid can hit the registered finding 'success-without-root')
    for vw in (0.35, 0.50, 0.80):
        c1, c2, Tp, Tm, vmid = hydro.findHydroBoundaries(vw)
        wp = WallParams(widths=np.array([0.05, 0.07]), offsets=np.array([0.0, 0.3]))
        eom._updateGrid(wp, vmid)                      # once, as wallPressure() does
        fields, dPhidz = eom.wallProfile(grid.xiValues, thermo.freeEnergyLow(Tm).fieldsAtMinimum,
                                         thermo.freeEnergyHigh(Tp).fieldsAtMinimum, wp)
        for it, amp in enumerate((0.0, 300.0)):        # iteration 1: no moments yet; 2: Boltzmann's
            D = deltas(eom, grid, amp, seed=7)
            T, v = eom.findPlasmaProfile(c1, c2, vmid, fields, dPhidz, D, Tp, Tm)
            r30, r33, size = residuals(veff, eom, c1, c2, vmid, fields, dPhidz, D, T, v)
            ok = (not eom.successTemperatureProfile) or (r30 < 1e-8 and r33 < 1e-4)
            print("%s vw=%.2f call %d |Tout|/c~%.1e success=%s max|dT30|/|c1|=%.1e max|dT33|/|c2|=%.1e"
                  % ("ok  " if ok else "FAIL", vw, it + 1, size, eom.successTemperatureProfile, r30, r33))
            if not ok:
                bad.append((vw, it + 1, r30, r33))
    if bad:
        print("PROPERTY C04 VIOLATED: (T, v) + supplied moments do not reproduce c1/c2:", bad)
        return 1
    print("all fine")
    return 0


if __name__ == "__main__":
    sys.exit(main())
