"""
C04 audit demo 1 -- the plasma profile that wallPressure()/solveWall() hand back must conserve
T^{30}, T^{33} with the wall it belongs to (LTE run, includeOffEq=False, default
forceEnergyConservation=True).

Analytic two-field xSM-like model. (a) eom.wallPressure(vw, guess) for a deflagration, a hybrid
and a detonation: at every interior point of the returned BoltzmannBackground
    w(phi_k, T_k) gamma^2(v_k) v_k = c1                                   (T30, exact enthalpy)
    (dphi/dz)^2/2 - V(phi_k,T_k) + w gamma^2 v_k^2 = c2                   (T33, final wall shape)
(b) eom.findWallVelocityDeflagrationHybrid(): the same T30 test on
WallGoResults.temperatureProfile / velocityProfile / fieldProfiles.
Exit 0 = conserved (unchanged tree: T30 ~1e-12, T33 <= 4e-5), 1 = violated.
"""
import sys, time
import numpy as np
import WallGo
from WallGo import Fields, EffectivePotential
from WallGo.containers import BoltzmannDeltas, WallParams
from WallGo.polynomial import Polynomial


class Veff(EffectivePotential):
    """xSM-like two-field potential, high-T expansion, fully analytic in T."""
    fieldCount = 2
    effectivePotentialError = 1e-15
    lHH = 0.12910272655165576
    lSS, lHS = 1.0, 0.9
    cH, cS = 0.4338, 0.4
    aRad = 107.75 * np.pi**2 / 90

    def __init__(self, unit=1.0):
        self.muHsq = -7812.5 * unit**2
        self.muSsq = -12832.2 * unit**2

    def evaluate(self, fields, temperature):
        fields = Fields(fields)
        return self.exactV(fields.getField(0), fields.getField(1), temperature)

    def exactV(self, v, x, T):
        return (0.5 * (self.muHsq + self.cH * T**2) * v**2 + 0.25 * self.lHH * v**4
                + 0.5 * (self.muSsq + self.cS * T**2) * x**2 + 0.25 * self.lSS * x**4
                + 0.25 * self.lHS * v**2 * x**2 - self.aRad * T**4)

    def exactW(self, v, x, T):
        return -T * (self.cH * T * v**2 + self.cS * T * x**2 - 4 * self.aRad * T**3)


def build(unit=1.0, M=22, N=11, **eomKwargs):
    u = unit
    Tn = 100.0 * u
    veff = Veff(u)
    veff.configureDerivatives(WallGo.VeffDerivativeSettings(10.0 * u, 50.0 * u))
    thermo = WallGo.Thermodynamics(veff, Tn, Fields([195.0 * u, 0.0]), Fields([0.0, 105.0 * u]))
    thermo.freeEnergyHigh.disableAdaptiveInterpolation()
    thermo.freeEnergyLow.disableAdaptiveInterpolation()
    thermo.freeEnergyHigh.tracePhase(75.0 * u, 125.0 * u, 0.1 * u)
    thermo.freeEnergyLow.tracePhase(75.0 * u, 125.0 * u, 0.1 * u)
    thermo.setExtrapolate()
    hydro = WallGo.Hydrodynamics(thermo, 10.0, 0.01, 1e-6, 1e-6)
    grid = WallGo.grid3Scales.Grid3Scales(M, N, 0.2 / u, 0.2 / u, 0.05 / u, Tn)
    bs = WallGo.BoltzmannSolver(grid, basisM="Cardinal", basisN="Chebyshev")
    top = WallGo.Particle("top", 0, lambda f: 0.5 * 0.99**2 * f.getField(0) ** 2,
                          lambda f: np.transpose([0.99**2 * f.getField(0), 0 * f.getField(1)]),
                          "Fermion", 12)
    bs.updateParticleList([top])
    eom = WallGo.EOM(bs, thermo, hydro, grid, 2, 0.0, (0.1, 100.0), (-10.0, 10.0), **eomKwargs)
    return veff, thermo, hydro, grid, bs, eom


def check(veff, hydro, vw, fields, T, v, dPhidz=None):
    c1, c2, Tp, Tm, vmid = hydro.findHydroBoundaries(vw)
    r30 = r33 = 0.0
    for k in range(1, len(T) - 1):
        h, s = float(fields[k, 0]), float(fields[k, 1])
        w = veff.exactW(h, s, T[k])
        g2 = 1.0 / (1.0 - v[k] ** 2)
        r30 = max(r30, abs(w * g2 * v[k] - c1) / abs(c1))
        if dPhidz is not None:
            kin = 0.5 * float(np.sum(np.asarray(dPhidz[k - 1]) ** 2))
            r33 = max(r33, abs(kin - veff.exactV(h, s, T[k]) + w * g2 * v[k] ** 2 - c2) / abs(c2))
    return r30, r33


def main():
    veff, thermo, hydro, grid, bs, eom = build(errTol=1e-5)
    bad = []
    for vw in (0.35, 0.60, 0.80):
        guess = WallParams(widths=np.array([0.05, 0.05]), offsets=np.array([0.0, 0.0]))
        P, wp, bres, bg, hres = eom.wallPressure(vw, guess)
        c1, c2, Tp, Tm, vmid = hydro.findHydroBoundaries(vw)
        _, dPhidz = eom.wallProfile(grid.xiValues, thermo.freeEnergyLow(Tm).fieldsAtMinimum,
                                    thermo.freeEnergyHigh(Tp).fieldsAtMinimum, wp)
        r30, r33 = check(veff, hydro, vw, bg.fieldProfiles, bg.temperatureProfile,
                         bg.velocityProfile, dPhidz)
        ok = eom.successTemperatureProfile and r30 < 1e-8 and r33 < 2e-4
        print("%s wallPressure(vw=%.2f): success=%s widths*Tn=%s offsets=%s  max|dT30|/|c1|=%.1e "
              "max|dT33|/|c2|=%.1e" % ("ok  " if ok else "FAIL", vw, eom.successTemperatureProfile,
                                       np.round(wp.widths * 100, 3), np.round(wp.offsets, 3), r30, r33))
        if not ok:
            bad.append(("wallPressure", vw, r30, r33))
    veff, thermo, hydro, grid, bs, eom = build(errTol=1e-4)
    res = eom.findWallVelocityDeflagrationHybrid()
    r30, _ = check(veff, hydro, res.wallVelocity, res.fieldProfiles, res.temperatureProfile,
                   res.velocityProfile)
    ok = r30 < 1e-8
    print("%s solveWall: vw=%.6f success=%s  WallGoResults profile max|dT30|/|c1|=%.1e" % (
        "ok  " if ok else "FAIL", res.wallVelocity, res.success, r30))
    if not ok:
        bad.append(("solveWall", res.wallVelocity, r30, None))
    if bad:
        print("PROPERTY C04 VIOLATED: profile reported with success does not reproduce c1/c2:", bad)
        return 1
    print("all fine")
    return 0


if __name__ == "__main__":
    sys.exit(main())
