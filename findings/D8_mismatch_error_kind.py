"""D8 (C14): collision files of different basis size in one directory: newFromDirectory fails with a bare
AssertionError (silently skipped under python -O) instead of the documented CollisionLoadError.
Exit 0 when CollisionLoadError is raised."""
import sys, tempfile, pathlib
import numpy as np, h5py
import WallGo
from WallGo.exceptions import CollisionLoadError


def part(name):
    return WallGo.Particle(name=name, index=0, msqVacuum=lambda f: 0.0 * f.getField(0),
                           msqDerivative=lambda f: 0.0, statistics="Fermion", totalDOFs=1)


def write(d, p1, p2, N, basis="Chebyshev"):
    with h5py.File(str(d / f"collisions_{p1}_{p2}.hdf5"), "w") as f:
        m = f.create_dataset("metadata", data=np.zeros(1))
        m.attrs["Basis Size"] = N
        m.attrs["Basis Type"] = basis
        f.create_dataset(f"{p1}, {p2}", data=np.ones((N - 1,) * 4))


d = pathlib.Path(tempfile.mkdtemp())
for p1, p2, N in (("a", "a", 5), ("a", "b", 5), ("b", "a", 7), ("b", "b", 5)):
    write(d, p1, p2, N)
grid = WallGo.Grid(4, 5, 1.0, 1.0)
b = WallGo.BoltzmannSolver(grid, "Cardinal", "Cardinal", "Spectral")
b.updateParticleList([part("a"), part("b")])
try:
    b.loadCollisions(d)
    print("no error raised"); sys.exit(1)
except CollisionLoadError as e:
    print("CollisionLoadError:", str(e)[:80]); sys.exit(0)
except AssertionError as e:
    print("AssertionError (not a CollisionLoadError):", str(e)[:60]); sys.exit(1)
