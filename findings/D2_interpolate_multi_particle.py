"""D2 (C14): CollisionArray.interpolateCollisionArray reshapes the result of Polynomial.evaluate,
whose layout is (points, a, b, j, k), straight into (a, alpha, beta, b, j, k). For two or more particles
the entries of different particle pairs get mixed: interpolating a 2-particle array differs from
interpolating each pair on its own. Exit 0 when they agree."""
import sys
import numpy as np
import WallGo
from WallGo.collisionArray import CollisionArray
from WallGo.polynomial import Polynomial


def part(name):
    return WallGo.Particle(name=name, index=0, msqVacuum=lambda f: 0.0 * f.getField(0),
                           msqDerivative=lambda f: 0.0, statistics="Fermion", totalDOFs=1)


rng = np.random.default_rng(1)
Nsrc, Ntgt, P = 7, 5, 2
src = WallGo.Grid(4, Nsrc, 1.0, 1.0)
tgt = WallGo.Grid(4, Ntgt, 1.0, 1.0)
ps = [part("a"), part("b")]
data = rng.normal(size=(P, Nsrc - 1, Nsrc - 1, P, Nsrc - 1, Nsrc - 1))


def make(d, particles):
    poly = Polynomial(d.copy(), src, ("Array", "Cardinal", "Cardinal", "Array", "Chebyshev", "Chebyshev"),
                      CollisionArray.AXIS_TYPES, endpoints=False)
    return CollisionArray.newFromPolynomial(poly, particles)


full = CollisionArray.interpolateCollisionArray(make(data, ps), tgt)
worst = 0.0
for i in range(P):
    for j in range(P):
        single = CollisionArray.interpolateCollisionArray(make(data[i:i + 1, :, :, j:j + 1], [ps[i]]), tgt)
        d = np.max(np.abs(full[i, :, :, j] - single[0, :, :, 0]))
        worst = max(worst, d)
        print("pair (%d,%d): max |joint - alone| = %.3e" % (i, j, d))
sys.exit(0 if worst < 1e-12 else 1)
