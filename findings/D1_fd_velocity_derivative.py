"""D1 (C12): in finite-difference mode BoltzmannSolver.buildLinearEquations computed dv/dchi from
the TEMPERATURE profile. With constant T and a varying velocity profile the finite-difference source
then misses the whole velocity-gradient term and does not converge to the spectral source.
Exit 0 when the FD source converges to the spectral one, 1 otherwise."""
import sys
import numpy as np
import WallGo
from WallGo.collisionArray import CollisionArray


def sources(M, N=5):
    grid = WallGo.Grid(M, N, 0.05, 100.0)
    chi, _, _ = grid.getCompactCoordinates(endpoints=True)
    v = -0.5 + 0.1 * np.tanh(2 * chi)           # smooth, varying
    T = 100.0 * np.ones(M + 1)                   # constant
    field = WallGo.Fields(np.ones((M + 1, 1)))   # constant -> dm^2/dchi = 0
    bg = WallGo.BoltzmannBackground(velocityMid=0.5 * (v[0] + v[-1]), velocityProfile=v,
                                    fieldProfiles=field, temperatureProfile=T,
                                    polynomialBasis="Cardinal")
    p = WallGo.Particle(name="top", index=0, msqVacuum=lambda phi: 0.5 * phi.getField(0) ** 2,
                        msqDerivative=lambda f: np.transpose([f.getField(0)]),
                        statistics="Fermion", totalDOFs=12)
    out = []
    for mode in ("Spectral", "Finite Difference"):
        b = WallGo.BoltzmannSolver(grid, "Cardinal", "Cardinal", mode)
        b.updateParticleList([p])
        b.setBackground(bg)
        ca = CollisionArray(grid, "Cardinal", [p])
        ca.polynomialData.coefficients[...] = 0.0
        b.setCollisionArray(ca)
        _, source, _, _ = b.buildLinearEquations()
        out.append(source)
    return out


worst = []
for M in (20, 40, 80):
    s, f = sources(M)
    rel = np.linalg.norm(s - f) / np.linalg.norm(s)
    worst.append(rel)
    print("M=%d  |S_fd - S_spectral|/|S_spectral| = %.3e   |S_fd| = %.3e" % (M, rel, np.linalg.norm(f)))
ok = worst[-1] < 0.05 and worst[-1] < worst[0]
print("converges" if ok else "FD source does NOT converge to the spectral source")
sys.exit(0 if ok else 1)
