"""D9/D10 (C18): extendInterpolationTable decided the number of appended points with np.arange on floats
(one point too many: a duplicate knot == rangeMin -> ValueError from CubicSpline; or an upper point beyond newMax),
and an adaptive update with no table and all pending evaluations at one point called newInterpolationTable(x, x, n).
Exit 0 when all three histories behave."""
import sys
import numpy as np
from WallGo import InterpolatableFunction


class Sin(InterpolatableFunction):
    def _functionImplementation(self, x):
        return np.sin(np.asarray(x, dtype=float))


bad = 0


def case(name, fn):
    global bad
    try:
        ok, msg = fn()
    except Exception as e:  # noqa
        ok, msg = False, "raised %s: %s" % (type(e).__name__, str(e)[:70])
    print("%-4s %s  %s" % ("ok" if ok else "FAIL", name, msg))
    bad += 0 if ok else 1


def dup():
    f = Sin(bUseAdaptiveInterpolation=False)
    f.newInterpolationTable(-1.182, 0.33090700000000006, 50)
    f.extendInterpolationTable(-2.302, 1.030907, 7, 3)
    x = np.asarray(f._interpolationPoints)
    return bool(np.all(np.diff(x) > 0) and abs(float(f(-2.0)) - np.sin(-2.0)) < 1e-3), "n=%d" % x.size


def near_dup():
    f = Sin(bUseAdaptiveInterpolation=False)
    f.newInterpolationTable(-2.6, -1.4623270000000002, 50)
    f.extendInterpolationTable(-3.6, 0.13767299999999993, 49, 1)
    x = np.asarray(f._interpolationPoints)
    return bool(np.min(np.diff(x)) > 1e-6), "min gap %.3g" % np.min(np.diff(x))


def overshoot():
    f = Sin(bUseAdaptiveInterpolation=False)
    f.newInterpolationTable(-1.636, 0.06400000000000006, 5)
    f.extendInterpolationTable(-2.3259999999999996, 0.9640000000000001, 7, 2)
    return bool(f.interpolationRangeMax() <= 0.9640000000000001 * (1 + 1e-12) and
                abs(f.interpolationRangeMin() - -2.3259999999999996) < 1e-12), \
        "range [%r, %r]" % (f.interpolationRangeMin(), f.interpolationRangeMax())


def degenerate():
    f = Sin(bUseAdaptiveInterpolation=True)
    f._evaluationsUntilAdaptiveUpdate = 3
    r = [float(f(1.0)) for _ in range(5)]
    return bool(np.allclose(r, np.sin(1.0))), str(r[:2])


for n, fn in [("extend: duplicate knot at rangeMin", dup), ("extend: near-duplicate knot", near_dup),
              ("extend: upper end overshoots newMax", overshoot),
              ("adaptive update, no table, one distinct point", degenerate)]:
    case(n, fn)
sys.exit(1 if bad else 0)
