"""D12 (C05): Hydrodynamics.findvwLTE returned the static sentinel 0 (or raised WallGoError) although an
entropy-conserving wall velocity exists inside the window: at vw == vMin the strict test `vw > self.template.vMin`
in matchDeflagOrHyb fell through to the crude initial guess [Tn, 0.99 Tn], the 2x2 solve failed and
shockTnuclDiff(vMin) was garbage. Exit 0 when every listed input yields an interior velocity."""
import sys
sys.path.insert(0, "/verif/tools")
from props.C03 import make_eos, make_hydro

cases = [dict(kind="bag", psi=0.655, Tn=0.561), dict(kind="bag", psi=0.548, Tn=0.598),
         dict(kind="bag", psi=0.169, Tn=0.774), dict(kind="bag", psi=0.242, Tn=0.686),
         dict(kind="bag", psi=0.722, Tn=0.523), dict(kind="bag", psi=0.429, Tn=0.7)]
bad = 0
for spec in cases:
    _, hy = make_hydro(spec)
    try:
        v = hy.findvwLTE()
    except Exception as e:  # noqa
        v = "raised %s" % type(e).__name__
    ok = isinstance(v, float) and 0.0 < v < 1.0
    print("%-40s vMin=%.4f vJ=%.4f  findvwLTE -> %s" % (spec, hy.vMin, hy.vJ, v))
    bad += 0 if ok else 1
sys.exit(1 if bad else 0)
