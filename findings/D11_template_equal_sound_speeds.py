"""D11 (C15): HydrodynamicsTemplateModel.findMatching returned (None,)*4 for many deflagration/hybrid wall
velocities when the two sound speeds are exactly equal and != 1/3 (mu == nu): the velocity at which w+ changes sign
then coincides with the upper bracket end vpMax = vw and the strict test vpMin < vpSignChangeWp < vpMax misses it,
so the bracket keeps the singular point. Exit 0 when every sampled wall velocity below vJ has a matching that agrees
with the general solver."""
import sys
import numpy as np
import WallGo
sys.path.insert(0, ".")
from tests.test_HydroTemplateModel import TestModelTemplate

bad = 0
for (alN, psiN, c2) in [(0.05, 0.9, 0.25), (0.05, 0.9, 0.3), (0.2, 0.6, 0.25)]:
    model = TestModelTemplate(alN, psiN, c2, c2, 1, 1)
    ht = WallGo.HydrodynamicsTemplateModel(model, 1e-6, 1e-6)
    hg = WallGo.Hydrodynamics(model, 10, 0.01, 1e-6, 1e-6)
    none = 0
    worst = 0.0
    vws = np.linspace(max(ht.vMin, 0.005), ht.vJ * 0.999, 60)
    for vw in vws:
        r = ht.findMatching(float(vw))
        if r[0] is None:
            none += 1
            continue
        g = hg.findMatching(float(vw))
        worst = max(worst, max(abs(a - b) / abs(b) for a, b in zip(r[:4], g[:4])))
    print("alN=%g psiN=%g cs2=cb2=%g: %d of %d wall velocities without a matching; worst rel. diff to general solver %.2e"
          % (alN, psiN, c2, none, len(vws), worst))
    bad += none + (worst > 1e-3)
sys.exit(1 if bad else 0)
