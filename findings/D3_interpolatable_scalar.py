"""D3 (C18): InterpolatableFunction contract failures. Prints one line per sub-case; exit 0 when all hold.
 a) scalar-valued function (returnValueCount=1), evaluation outside the table under CONSTANT / FUNCTION / NONE modes
 b) scalar-valued function: points with non-finite values must be left out individually when a table is built
 c) derivative() on input mixing in-range and out-of-range points
 d) derivative() at a point just outside the table (stencil reaches back inside) in CONSTANT mode must be 0
"""
import sys
import numpy as np
from WallGo import InterpolatableFunction, EExtrapolationType as E


class Sq(InterpolatableFunction):
    def _functionImplementation(self, x):
        return np.asarray(x, dtype=float) ** 2


class SqrtShift(InterpolatableFunction):
    def _functionImplementation(self, x):
        x = np.asarray(x, dtype=float)
        with np.errstate(invalid="ignore"):
            return np.sqrt(x - 1.0)          # nan below 1


class Vec(InterpolatableFunction):
    def _functionImplementation(self, x):
        x = np.asarray(x, dtype=float)
        return np.stack([x ** 2, x ** 3], axis=-1)


bad = 0


def case(name, fn):
    global bad
    try:
        ok, msg = fn()
    except Exception as e:                    # noqa
        ok, msg = False, "raised %s: %s" % (type(e).__name__, str(e)[:70])
    print("%-4s %s  %s" % ("ok" if ok else "FAIL", name, msg))
    bad += 0 if ok else 1


def mk(cls, k=1, lo=E.CONSTANT, hi=E.CONSTANT):
    f = cls(bUseAdaptiveInterpolation=False, returnValueCount=k)
    f.setExtrapolationType(lo, hi)
    f.newInterpolationTable(1.0, 3.0, 200)
    return f


def a_const():
    f = mk(Sq)
    r = f(np.array([0.5, 2.0, 4.0]))
    return bool(np.allclose(r, [1.0, 4.0, 9.0], atol=1e-6) and r.shape == (3,)), str(r)


def a_func():
    f = mk(Sq, lo=E.FUNCTION, hi=E.FUNCTION)
    r = f(np.array([0.9, 3.1]))
    return bool(np.allclose(r, [0.81, 9.61], atol=1e-3)), str(r)


def a_none():
    f = mk(Sq, lo=E.NONE, hi=E.CONSTANT)
    r = f(np.array([0.5, 4.0]))
    return bool(np.allclose(r, [0.25, 9.0], atol=1e-6)), str(r)


def b_drop():
    f = SqrtShift(bUseAdaptiveInterpolation=False, returnValueCount=1)
    f.newInterpolationTable(0.0, 5.0, 100)     # first fifth of the points are nan
    ok = f.hasInterpolation() and abs(float(f(4.0)) - np.sqrt(3.0)) < 1e-6 and f.interpolationRangeMin() >= 1.0
    return bool(ok), "range [%g, %g]" % (f.interpolationRangeMin(), f.interpolationRangeMax())


def c_mixed():
    f = mk(Vec, k=2)
    r = f.derivative(np.array([2.0, 4.0]), order=1)
    return bool(np.allclose(r, [[4.0, 12.0], [0.0, 0.0]], atol=1e-5)), str(np.asarray(r).tolist())


def d_edge():
    f = mk(Vec, k=2)
    x = np.array([3.0 + 2e-4])
    r = np.asarray(f.derivative(x, order=1))
    r2 = np.asarray(f.derivative(x, order=1))
    fin = bool(np.all(np.isfinite(r)))
    return bool(fin and np.allclose(r, r2) and np.all(np.abs(r) < 50.0)), str(r.tolist())


for n, fn in [("a scalar CONSTANT", a_const), ("a scalar FUNCTION", a_func), ("a scalar NONE/CONSTANT", a_none),
              ("b scalar non-finite rows dropped individually", b_drop), ("c derivative mixed in/out", c_mixed),
              ("d derivative just outside the table", d_edge)]:
    case(n, fn)
sys.exit(1 if bad else 0)
