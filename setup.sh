#!/bin/bash
# offline build of the repo-independent Coq library (full .vo build, no -vos)
set -e
cd "$(dirname "$0")/coq"
coq_makefile -f _CoqProject -o Makefile > /dev/null
timeout 3000 make -j16 2>&1 | tail -n 20
cd ..
mkdir -p build evidence replays
echo "setup ok"
